package main

import (
	"fmt"
	"go/ast"
	"go/types"
	"os"
	"path/filepath"
	"sort"
	"strings"

	"golang.org/x/tools/go/packages"
)

type pkgT = packages.Package

type pkgInfo struct {
	pkg   *packages.Package
	decls map[string]*ast.FuncDecl // funcKey -> decl
	lits  map[string]*ast.FuncLit  // "Outer#litK" -> literal
}

type ghostDecl struct {
	name     string
	typ      types.Type
	refKeyed bool // keys are object references: entries of objects allocated by a function are its own business
}

type specFuncInfo struct {
	sf      *SpecFunc
	smtName string
	psorts  []Sort
	ptypes  []types.Type
	rsort   Sort
	rtype   types.Type
	pkg     *types.Package
}

const modulePath = "github.com/yandex/pandora"

type Engine struct {
	repo            string
	u               *Universe
	files           []*ContractFile
	pkgs            map[string]*pkgInfo
	allTypes        map[string]*types.Package
	blocks          map[string]*Block // "pkgPath|key" for func blocks, FullName for ext, "iface|path.I.M", "field|pkgPath|T.f"
	specFuncs       map[string]*specFuncInfo
	ghostDecls      map[string]*ghostDecl
	closures        map[string]*closure
	litKeys         map[*ast.FuncLit]string
	declIndex       map[string]*declInfo // FullName -> decl
	axioms          []*Axiom
	autoInline      map[string]bool
	baseNames       map[string]baseNames // names as of the tree the contracts were written against (lib/names.json)
	ranges          bool
	debug           bool
	needSubAxiom    bool
	needAppendAxiom bool
	scratch         *Unit
	axiomsDone      bool
	guards          map[string]string // mangled type name + "." + field -> mutex field
}

func NewEngine(repo string) *Engine {
	e := &Engine{
		repo: repo, u: NewUniverse(), pkgs: map[string]*pkgInfo{}, allTypes: map[string]*types.Package{},
		blocks: map[string]*Block{}, specFuncs: map[string]*specFuncInfo{}, ghostDecls: map[string]*ghostDecl{},
		closures: map[string]*closure{}, litKeys: map[*ast.FuncLit]string{}, declIndex: map[string]*declInfo{},
		autoInline: map[string]bool{},
	}
	im := types.NewMap(intT, intT)
	bm := types.NewMap(intT, boolT)
	for n, t := range map[string]types.Type{
		"now": intT, "timerDeadline": im, "chanSent": im, "chanClosed": bm, "lockHeld": im, "syncedWith": bm, "lockReleased": bm,
		"ev_spawn": intT, "ev_exit": intT,
	} {
		e.ghostDecls[n] = &ghostDecl{name: n, typ: t}
	}
	return e
}

// LoadContracts reads every verif_contracts.go under the repository and the library contract files.
func (e *Engine) LoadContracts(libDir string) error {
	var paths []string
	err := filepath.Walk(e.repo, func(p string, info os.FileInfo, err error) error {
		if err != nil {
			return nil
		}
		if info.IsDir() && (info.Name() == ".git" || info.Name() == "vendor" || info.Name() == "node_modules") {
			return filepath.SkipDir
		}
		if !info.IsDir() && info.Name() == "verif_contracts.go" {
			paths = append(paths, p)
		}
		return nil
	})
	if err != nil {
		return err
	}
	sort.Strings(paths)
	for _, p := range paths {
		src, err := os.ReadFile(p)
		if err != nil {
			return err
		}
		rel, _ := filepath.Rel(e.repo, filepath.Dir(p))
		pkgPath := modulePath
		if rel != "." {
			pkgPath = modulePath + "/" + filepath.ToSlash(rel)
		}
		cf, err := ParseContractText(p, pkgPath, string(src))
		if err != nil {
			return err
		}
		e.files = append(e.files, cf)
	}
	e.loadBaseNames(libDir)
	libs, _ := filepath.Glob(filepath.Join(libDir, "*.gvc"))
	sort.Strings(libs)
	for _, p := range libs {
		src, err := os.ReadFile(p)
		if err != nil {
			return err
		}
		cf, err := ParseContractText(p, "", string(src))
		if err != nil {
			return err
		}
		e.files = append(e.files, cf)
	}
	// package-level relevance: the proof of a property leans on every contract of the packages its code lives in
	for _, cf := range e.files {
		for _, r := range cf.Relev {
			for _, cf2 := range e.files {
				rel := strings.TrimPrefix(cf2.PkgPath, "github.com/yandex/pandora/")
				if rel != r[0] && !strings.HasPrefix(rel, r[0]+"/") {
					continue
				}
				for _, b := range cf2.Blocks {
					if b.Kind != "func" && b.Kind != "struct" && b.Kind != "lemma" || b.Flags["inline"] || b.Flags["trusted"] {
						continue
					}
					for _, p := range r[1:] {
						if !b.HasProp(p) {
							b.Props = append(b.Props, p)
						}
					}
				}
			}
		}
	}
	for _, cf := range e.files {
		for _, b := range cf.Blocks {
			var k string
			switch b.Kind {
			case "func":
				k = cf.PkgPath + "|" + b.Key
			case "ext":
				k = b.Key
				b.Flags["trusted"] = true
			case "iface":
				k = "iface|" + qualifyIface(cf.PkgPath, b.Key)
			case "fieldfunc":
				k = "field|" + cf.PkgPath + "|" + b.Key
			case "lemma":
				k = "lemma|" + b.Key
			case "struct":
				k = "struct|" + cf.PkgPath + "|" + b.Key
			}
			if _, dup := e.blocks[k]; dup {
				return fmt.Errorf("%s:%d: duplicate contract block %s", b.File, b.Line, k)
			}
			e.blocks[k] = b
		}
		for _, ev := range cf.Events {
			e.ghostDecls["ev_"+ev] = &ghostDecl{name: "ev_" + ev, typ: intT}
		}
		e.axioms = append(e.axioms, cf.Axioms...)
		for _, u := range cf.Uses {
			if importAlias[cf.PkgPath] == nil {
				importAlias[cf.PkgPath] = map[string]string{}
			}
			importAlias[cf.PkgPath][u[0]] = u[1]
		}
		for _, g := range cf.Guards {
			if e.guards == nil {
				e.guards = map[string]string{}
			}
			e.guards[mangle(cf.PkgPath+"."+g[0])+"."+g[1]] = g[2]
		}
	}
	return nil
}

// qualifyIface: "Schedule.Next" in package p -> "p.Schedule.Next"; "core.Schedule.Next" -> "<module>/core.Schedule.Next" if unique.
func qualifyIface(pkgPath, key string) string {
	parts := strings.Split(key, ".")
	if len(parts) == 2 {
		return pkgPath + "." + key
	}
	return key // resolved lazily by suffix match
}

func (e *Engine) blockFor(pkgPath, key string) *Block {
	if b, ok := e.blocks[pkgPath+"|"+key]; ok {
		return b
	}
	// ext blocks are keyed by FullName
	if strings.HasPrefix(key, "(") {
		// "(*T).M" -> "(*pkgPath.T).M"
		i := strings.Index(key, ")")
		recv := key[1:i]
		ptr := ""
		if strings.HasPrefix(recv, "*") {
			ptr = "*"
			recv = recv[1:]
		}
		if b, ok := e.blocks["("+ptr+pkgPath+"."+recv+")"+key[i+1:]]; ok {
			return b
		}
		return nil
	}
	if b, ok := e.blocks[pkgPath+"."+key]; ok && b.Kind == "ext" {
		return b
	}
	return nil
}

func (e *Engine) ifaceBlock(recvT types.Type, method string) *Block {
	t := types.Unalias(recvT)
	if tp, ok := t.(*types.TypeParam); ok {
		t = types.Unalias(tp.Constraint()) // methods of a type parameter are those of its constraint
	}
	n, ok := t.(*types.Named)
	if !ok || n.Obj().Pkg() == nil {
		if ok && n.Obj().Pkg() == nil { // error
			if b, ok := e.blocks["iface|"+n.Obj().Name()+"."+method]; ok {
				return b
			}
		}
		return nil
	}
	full := n.Obj().Pkg().Path() + "." + n.Obj().Name() + "." + method
	if b, ok := e.blocks["iface|"+full]; ok {
		return b
	}
	short := n.Obj().Pkg().Name() + "." + n.Obj().Name() + "." + method
	if b, ok := e.blocks["iface|"+short]; ok {
		return b
	}
	// embedded interfaces
	if it, ok := n.Underlying().(*types.Interface); ok {
		for i := 0; i < it.NumEmbeddeds(); i++ {
			if b := e.ifaceBlock(it.EmbeddedType(i), method); b != nil {
				return b
			}
		}
	}
	return nil
}

func (e *Engine) fieldFuncBlock(pkgPath, fieldOf string) *Block {
	// fieldOf is "<mangled type>.<field>"; contract keys are "T.f" in the type's package
	i := strings.LastIndex(fieldOf, ".")
	if i < 0 {
		return nil
	}
	tn, f := fieldOf[:i], fieldOf[i+1:]
	for k, b := range e.blocks {
		if !strings.HasPrefix(k, "field|") {
			continue
		}
		parts := strings.SplitN(k, "|", 3)
		kt := strings.Split(parts[2], ".")
		if len(kt) != 2 || kt[1] != f {
			continue
		}
		if tn == mangle(parts[1]+"."+kt[0]) || tn == "" {
			return b
		}
	}
	return nil
}

func (e *Engine) typesPkg(path string) *types.Package {
	if path == "" {
		return nil
	}
	return e.allTypes[path]
}

func (e *Engine) declFor(f *types.Func) *declInfo {
	return e.declIndex[f.FullName()]
}

// LoadPackages type-checks the given package paths (with the verif tag) from the working tree.
func (e *Engine) LoadPackages(paths []string) error {
	var need []string
	for _, p := range paths {
		if _, ok := e.pkgs[p]; !ok {
			need = append(need, p)
		}
	}
	if len(need) == 0 {
		return nil
	}
	cfg := &packages.Config{
		Mode: packages.NeedName | packages.NeedFiles | packages.NeedCompiledGoFiles | packages.NeedImports |
			packages.NeedDeps | packages.NeedTypes | packages.NeedSyntax | packages.NeedTypesInfo | packages.NeedTypesSizes,
		Dir:        e.repo,
		BuildFlags: []string{"-tags=verif"},
		Env:        append(os.Environ(), "GOFLAGS=-mod=mod", "GOPROXY=off", "GOSUMDB=off", "GOTOOLCHAIN=local"),
	}
	pkgs, err := packages.Load(cfg, need...)
	if err != nil {
		return err
	}
	var errs []string
	packages.Visit(pkgs, nil, func(p *packages.Package) {
		if p.Types != nil {
			e.allTypes[p.PkgPath] = p.Types
		}
		if strings.HasPrefix(p.PkgPath, modulePath) {
			for _, er := range p.Errors {
				errs = append(errs, er.Error())
			}
			if _, ok := e.pkgs[p.PkgPath]; !ok && p.TypesInfo != nil {
				e.indexPackage(p)
			}
		}
	})
	if len(errs) > 0 {
		return fmt.Errorf("package errors: %s", strings.Join(errs, "; "))
	}
	return nil
}

func (e *Engine) indexPackage(p *packages.Package) {
	pi := &pkgInfo{pkg: p, decls: map[string]*ast.FuncDecl{}, lits: map[string]*ast.FuncLit{}}
	e.pkgs[p.PkgPath] = pi
	for _, f := range p.Syntax {
		for _, d := range f.Decls {
			fd, ok := d.(*ast.FuncDecl)
			if !ok || fd.Body == nil {
				continue
			}
			obj, ok := p.TypesInfo.Defs[fd.Name].(*types.Func)
			if !ok {
				continue
			}
			key, _ := funcKey(obj)
			pi.decls[key] = fd
			e.declIndex[obj.FullName()] = &declInfo{decl: fd, pkg: pi}
			e.indexLits(pi, key, fd.Body)
		}
	}
}

// indexLits numbers the function literals directly nested in body (not inside other literals): key#lit0, key#lit1 ...
func (e *Engine) indexLits(pi *pkgInfo, key string, body ast.Node) {
	n := 0
	var walk func(node ast.Node)
	walk = func(node ast.Node) {
		ast.Inspect(node, func(c ast.Node) bool {
			if c == node {
				return true
			}
			if lit, ok := c.(*ast.FuncLit); ok {
				k := fmt.Sprintf("%s#lit%d", key, n)
				n++
				pi.lits[k] = lit
				e.litKeys[lit] = k
				e.indexLits(pi, k, lit.Body)
				return false
			}
			return true
		})
	}
	walk(body)
}

// setupSpecs resolves spec functions, ghost globals and axioms once packages are loaded.
func (e *Engine) setupSpecs() error {
	for _, cf := range e.files {
		pkg := e.typesPkg(cf.PkgPath)
		for _, g := range cf.Ghosts {
			f := strings.Fields(g)
			if len(f) < 2 {
				return fmt.Errorf("%s: global needs 'name type'", cf.Path)
			}
			if _, ok := e.ghostDecls[f[0]]; ok {
				continue
			}
			te, err := parseTypeExpr(strings.Join(f[1:], " "))
			if err != nil {
				return fmt.Errorf("%s: global %s: %v", cf.Path, f[0], err)
			}
			t := resolveTypeIn(te, pkg)
			if t == nil {
				if cf.PkgPath != "" && pkg == nil {
					continue // package not loaded in this run
				}
				return fmt.Errorf("%s: global %s: cannot resolve type %s", cf.Path, f[0], f[1])
			}
			gd := &ghostDecl{name: f[0], typ: t}
			if mt, ok := t.Underlying().(*types.Map); ok && cf.PkgPath == "" && isInteger(mt.Key()) {
				gd.refKeyed = true
			}
			e.ghostDecls[f[0]] = gd
		}
		for _, sf := range cf.Specs {
			if _, ok := e.specFuncs[sf.Name]; ok {
				continue
			}
			if cf.PkgPath != "" && pkg == nil {
				continue
			}
			info := &specFuncInfo{sf: sf, smtName: "spec_" + sf.Name, pkg: pkg}
			okAll := true
			for _, pt := range sf.PTypes {
				te, err := parseTypeExpr(pt)
				if err != nil {
					return fmt.Errorf("%s: spec %s: %v", cf.Path, sf.Name, err)
				}
				t := resolveTypeIn(te, pkg)
				if t == nil {
					okAll = false
					break
				}
				info.ptypes = append(info.ptypes, t)
				info.psorts = append(info.psorts, e.u.SortOf(t))
			}
			te, err := parseTypeExpr(sf.RType)
			if err != nil {
				return fmt.Errorf("%s: spec %s: %v", cf.Path, sf.Name, err)
			}
			info.rtype = resolveTypeIn(te, pkg)
			if !okAll || info.rtype == nil {
				return fmt.Errorf("%s: spec %s: cannot resolve its types", cf.Path, sf.Name)
			}
			info.rsort = e.u.SortOf(info.rtype)
			if sf.Body == nil {
				var ps []string
				for _, s := range info.psorts {
					ps = append(ps, string(s))
				}
				e.u.DeclFun(info.smtName, "("+strings.Join(ps, " ")+") "+string(info.rsort))
			}
			e.specFuncs[sf.Name] = info
		}
	}
	return nil
}

// useSpecFunc is a hook for bookkeeping (which spec functions an obligation depends on).
func (x *Unit) useSpecFunc(sf *specFuncInfo) {}

// UnitsFor returns the units (blocks with a body in loaded packages) tagged with property prop ("" = all).
func (e *Engine) blocksFor(prop string) []*Block {
	var out []*Block
	for _, cf := range e.files {
		for _, b := range cf.Blocks {
			if b.Kind != "func" && b.Kind != "lemma" && b.Kind != "struct" {
				continue
			}
			if prop == "" || b.HasProp(prop) {
				out = append(out, b)
			}
		}
	}
	return out
}

func (e *Engine) packagesFor(blocks []*Block) []string {
	seen := map[string]bool{}
	var out []string
	for _, b := range blocks {
		if b.PkgPath != "" && !seen[b.PkgPath] {
			seen[b.PkgPath] = true
			out = append(out, b.PkgPath)
		}
		// struct blocks may name target types of other packages
		for _, cl := range b.Clauses {
			if cl.Kind != "decodes_as" {
				continue
			}
			for _, tn := range strings.Split(cl.AtName, "|") {
				if i := strings.LastIndex(tn, "."); i >= 0 && !seen[tn[:i]] {
					seen[tn[:i]] = true
					out = append(out, tn[:i])
				}
			}
		}
	}
	sort.Strings(out)
	return out
}

// bind finds the declaration or literal a func block is about.
func (e *Engine) bind(b *Block) (*pkgInfo, *ast.FuncDecl, *ast.FuncLit, error) {
	pi := e.pkgs[b.PkgPath]
	if pi == nil {
		return nil, nil, nil, fmt.Errorf("%s:%d: package %s not loaded", b.File, b.Line, b.PkgPath)
	}
	if strings.Contains(b.Key, "#lit") {
		lit := pi.lits[b.Key]
		if lit == nil {
			return nil, nil, nil, fmt.Errorf("%s:%d: contract key %q binds to no function literal in %s", b.File, b.Line, b.Key, b.PkgPath)
		}
		return pi, nil, lit, nil
	}
	fd := pi.decls[b.Key]
	if fd == nil {
		return nil, nil, nil, fmt.Errorf("%s:%d: contract key %q binds to no function in %s", b.File, b.Line, b.Key, b.PkgPath)
	}
	return pi, fd, nil, nil
}

func parseTypeExpr(s string) (ast.Expr, error) {
	return parserParseExpr(s)
}
