package main

// Names of parameters, results and local variables as they were when the contracts were written (lib/names.json, written
// by `govc names` on the tree the contracts were written against). Contracts mention these names; a later change that
// merely renames one must not make the contract unreadable. A name a contract uses that is no longer declared in the
// function is looked up here and bound to the variable that now stands in its place: the parameter or result at the
// same position, or the local variable of the same type at the same place among the locals of that type. The binding
// is only a reading aid: every obligation is still generated from, and checked against, the code as it is now.

import (
	"encoding/json"
	"fmt"
	"go/ast"
	"go/types"
	"os"
	"path/filepath"
	"sort"
	"strings"
)

type baseLocal struct {
	Name string `json:"name"`
	Type string `json:"type"`
	Ord  int    `json:"ord"` // index among the function's locals of this type, in source order
}

type baseNames struct {
	Recv    string      `json:"recv,omitempty"`
	Params  []string    `json:"params,omitempty"`
	Results []string    `json:"results,omitempty"`
	Locals  []baseLocal `json:"locals,omitempty"`
}

// declLocals lists the local variables declared in fd (nested literals included), in source order.
func declLocals(info *types.Info, fd *ast.FuncDecl, pkg *types.Package) (out []*types.Var) {
	if fd.Body == nil {
		return nil
	}
	sig, _ := info.Defs[fd.Name].Type().(*types.Signature)
	skip := map[types.Object]bool{}
	if sig != nil {
		for i := 0; i < sig.Params().Len(); i++ {
			skip[sig.Params().At(i)] = true
		}
		for i := 0; i < sig.Results().Len(); i++ {
			skip[sig.Results().At(i)] = true
		}
		if sig.Recv() != nil {
			skip[sig.Recv()] = true
		}
	}
	ast.Inspect(fd.Body, func(n ast.Node) bool {
		id, ok := n.(*ast.Ident)
		if !ok {
			return true
		}
		o := info.Defs[id]
		v, isVar := o.(*types.Var)
		if !isVar || v.IsField() || skip[v] || id.Name == "_" {
			return true
		}
		out = append(out, v)
		return true
	})
	sort.SliceStable(out, func(i, j int) bool { return out[i].Pos() < out[j].Pos() })
	return out
}

func typeKey(t types.Type) string {
	return types.TypeString(t, func(p *types.Package) string { return p.Path() })
}

func baseNamesOf(info *types.Info, fd *ast.FuncDecl, pkg *types.Package) baseNames {
	var bn baseNames
	if sig, ok := info.Defs[fd.Name].Type().(*types.Signature); ok {
		if sig.Recv() != nil {
			bn.Recv = sig.Recv().Name()
		}
		for i := 0; i < sig.Params().Len(); i++ {
			bn.Params = append(bn.Params, sig.Params().At(i).Name())
		}
		for i := 0; i < sig.Results().Len(); i++ {
			bn.Results = append(bn.Results, sig.Results().At(i).Name())
		}
	}
	count := map[string]int{}
	for _, v := range declLocals(info, fd, pkg) {
		tk := typeKey(v.Type())
		bn.Locals = append(bn.Locals, baseLocal{Name: v.Name(), Type: tk, Ord: count[tk]})
		count[tk]++
	}
	return bn
}

// cmdNames writes lib/names.json for every function that has a contract block.
func cmdNames(args []string) int {
	repo, verif := "/repo", "/verif"
	for i := 0; i+1 < len(args); i++ {
		switch args[i] {
		case "--repo":
			repo = args[i+1]
		case "--verif":
			verif = args[i+1]
		}
	}
	e := NewEngine(repo)
	if err := e.LoadContracts(filepath.Join(verif, "govc", "lib")); err != nil {
		fmt.Println("contracts:", err)
		return 1
	}
	var blocks []*Block
	for _, b := range e.blocks {
		if b.Kind == "func" {
			blocks = append(blocks, b)
		}
	}
	if err := e.LoadPackages(e.packagesFor(blocks)); err != nil {
		fmt.Println("load:", err)
		return 1
	}
	out := map[string]baseNames{}
	for _, b := range blocks {
		pi := e.pkgs[b.PkgPath]
		if pi == nil {
			continue
		}
		key := b.Key
		if i := strings.Index(key, "#lit"); i >= 0 {
			key = key[:i]
		}
		fd := pi.decls[key]
		if fd == nil {
			continue
		}
		out[b.PkgPath+"."+key] = baseNamesOf(pi.pkg.TypesInfo, fd, pi.pkg.Types)
	}
	js, _ := json.MarshalIndent(out, "", " ")
	p := filepath.Join(verif, "govc", "lib", "names.json")
	if err := os.WriteFile(p, append(js, '\n'), 0o644); err != nil {
		fmt.Println(err)
		return 1
	}
	fmt.Printf("%d functions -> %s\n", len(out), p)
	return 0
}

func (e *Engine) loadBaseNames(libDir string) {
	e.baseNames = map[string]baseNames{}
	data, err := os.ReadFile(filepath.Join(libDir, "names.json"))
	if err != nil {
		return
	}
	_ = json.Unmarshal(data, &e.baseNames)
}

// enclosingDecl: the declaration whose contract block (or whose literal's block) this unit verifies.
func (x *Unit) enclosingDecl() (*ast.FuncDecl, string) {
	if x.block == nil {
		return nil, ""
	}
	key := x.block.Key
	if i := strings.Index(key, "#lit"); i >= 0 {
		key = key[:i]
	}
	pi := x.eng.pkgs[x.block.PkgPath]
	if pi == nil {
		return nil, ""
	}
	return pi.decls[key], x.block.PkgPath + "." + key
}

// renamedVar: the variable that stands today where the contract's name `name` stood when the contract was written.
func (x *Unit) renamedVar(name string) *types.Var {
	fd, key := x.enclosingDecl()
	if fd == nil {
		return nil
	}
	bn, ok := x.eng.baseNames[key]
	if !ok {
		return nil
	}
	pi := x.eng.pkgs[x.block.PkgPath]
	info := pi.pkg.TypesInfo
	sig, _ := info.Defs[fd.Name].Type().(*types.Signature)
	if sig != nil {
		if bn.Recv == name && name != "" && name != "_" && sig.Recv() != nil && sig.Recv().Name() != name {
			return sig.Recv()
		}
		for i, n := range bn.Params {
			if n == name && n != "" && n != "_" && i < sig.Params().Len() && sig.Params().At(i).Name() != name {
				return sig.Params().At(i)
			}
		}
		for i, n := range bn.Results {
			if n == name && n != "" && n != "_" && i < sig.Results().Len() && sig.Results().At(i).Name() != "" {
				return sig.Results().At(i)
			}
		}
	}
	var want *baseLocal
	for i := range bn.Locals {
		if bn.Locals[i].Name == name {
			if want != nil {
				return nil // the name was declared more than once: no safe guess
			}
			want = &bn.Locals[i]
		}
	}
	if want == nil {
		return nil
	}
	oldNames := map[string]bool{}
	for _, l := range bn.Locals {
		if l.Type == want.Type {
			oldNames[l.Name] = true
		}
	}
	count := 0
	for _, v := range declLocals(info, fd, pi.pkg.Types) {
		if typeKey(v.Type()) != want.Type {
			continue
		}
		if count == want.Ord {
			if oldNames[v.Name()] {
				return nil // an old variable moved here: not a rename
			}
			return v
		}
		count++
	}
	return nil
}

// aliasParams adds, for every parameter (and the receiver) of callee that has been renamed since the contracts were
// written, the old name as a second name of the same argument.
func (x *Unit) aliasParams(callee *types.Func, sig *types.Signature, args []Val, recv *Val, names map[string]Val, entrySuffix bool) {
	if callee == nil || sig == nil {
		return
	}
	key, pkgPath := funcKey(callee)
	bn, ok := x.eng.baseNames[pkgPath+"."+key]
	if !ok {
		return
	}
	put := func(n string, v Val) {
		if n == "" || n == "_" {
			return
		}
		if _, taken := names[n]; !taken {
			names[n] = v
		}
		if entrySuffix {
			if _, taken := names[n+"0"]; !taken {
				names[n+"0"] = v
			}
		}
	}
	for i, n := range bn.Params {
		if i < len(args) && i < sig.Params().Len() && sig.Params().At(i).Name() != n {
			put(n, args[i])
		}
	}
	if recv != nil && sig.Recv() != nil && bn.Recv != sig.Recv().Name() {
		put(bn.Recv, *recv)
	}
}

// computeRenameBack: for the function under verification, today's name of every renamed variable -> its old name.
func (x *Unit) computeRenameBack() map[string]string {
	fd, key := x.enclosingDecl()
	if fd == nil {
		return nil
	}
	bn, ok := x.eng.baseNames[key]
	if !ok {
		return nil
	}
	pi := x.eng.pkgs[x.block.PkgPath]
	info := pi.pkg.TypesInfo
	cur := map[string]int{}
	for _, v := range declLocals(info, fd, pi.pkg.Types) {
		cur[v.Name()]++
	}
	sig, _ := info.Defs[fd.Name].Type().(*types.Signature)
	if sig != nil {
		for i := 0; i < sig.Params().Len(); i++ {
			cur[sig.Params().At(i).Name()]++
		}
		for i := 0; i < sig.Results().Len(); i++ {
			cur[sig.Results().At(i).Name()]++
		}
		if sig.Recv() != nil {
			cur[sig.Recv().Name()]++
		}
	}
	old := map[string]bool{bn.Recv: true}
	for _, n := range bn.Params {
		old[n] = true
	}
	for _, n := range bn.Results {
		old[n] = true
	}
	for _, l := range bn.Locals {
		old[l.Name] = true
	}
	out := map[string]string{}
	for n := range old {
		if n == "" || n == "_" || cur[n] > 0 {
			continue // still declared under this name
		}
		v := x.renamedVar(n)
		if v == nil || old[v.Name()] || cur[v.Name()] != 1 {
			continue
		}
		if prev, dup := out[v.Name()]; dup && prev != n {
			delete(out, v.Name())
			continue
		}
		out[v.Name()] = n
	}
	return out
}
