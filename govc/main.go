package main

import (
	"encoding/json"
	"flag"
	"fmt"
	"go/ast"
	"go/parser"
	"os"
	"path/filepath"
	"sort"
	"strconv"
	"strings"
	"time"
)

func parserParseExpr(s string) (ast.Expr, error) { return parser.ParseExpr(s) }

type knownFinding struct {
	Property   string `json:"property"`
	Obligation string `json:"obligation"`
	What       string `json:"what"`
	Status     string `json:"status"` // "known" or "fixed"
	Commit     string `json:"commit,omitempty"`
	// Witness: contract expression (over the function's entry state) that characterises the recorded failing inputs.
	// A failure of the obligation that is possible outside the witness is a different violation and is reported.
	Witness string `json:"witness,omitempty"`
}

type knownFile struct {
	Findings []knownFinding `json:"findings"`
	Fixed    []string       `json:"fixed"`
}

func main() {
	if len(os.Args) < 2 {
		fmt.Fprintln(os.Stderr, "usage: govc check --property ID [--tier quick|thorough] | govc dump ...")
		os.Exit(2)
	}
	switch os.Args[1] {
	case "check":
		os.Exit(cmdCheck(os.Args[2:]))
	case "names":
		os.Exit(cmdNames(os.Args[2:]))
	default:
		fmt.Fprintln(os.Stderr, "unknown command", os.Args[1])
		os.Exit(2)
	}
}

type unitReport struct {
	Name        string   `json:"name"`
	Obligations int      `json:"obligations"`
	Discharged  int      `json:"discharged"`
	Proved      bool     `json:"proved"`
	Unsupported []string `json:"unsupported,omitempty"`
}

func cmdCheck(args []string) int {
	fs := flag.NewFlagSet("check", flag.ExitOnError)
	prop := fs.String("property", "", "property id (C01..)")
	tier := fs.String("tier", "", "quick or thorough")
	repo := fs.String("repo", "/repo", "repository root")
	verif := fs.String("verif", "/verif", "verif root")
	only := fs.String("only", "", "verify only blocks whose key contains this text (debug)")
	keep := fs.Bool("keep", false, "keep SMT scripts of discharged obligations")
	debug := fs.Bool("debug", false, "panic on internal errors")
	verbose := fs.Bool("v", false, "list every obligation")
	noEvidence := fs.Bool("no-evidence", false, "do not write the evidence file")
	noReplay := fs.Bool("no-replay", false, "do not replay counterexamples on the real code")
	outDir := fs.String("out", "", "output directory for replay files (default <verif>/out/<property>)")
	fs.Parse(args)
	if *tier == "" {
		*tier = os.Getenv("VERIF_TIER")
	}
	if *tier == "" {
		*tier = "quick"
	}
	seed := int64(0)
	if s := os.Getenv("VERIF_SEED"); s != "" {
		seed, _ = strconv.ParseInt(s, 10, 64)
	}
	t0 := time.Now()
	_ = keep
	e := NewEngine(*repo)
	e.debug = *debug
	fail := func(format string, a ...any) int {
		msg := fmt.Sprintf(format, a...)
		fmt.Println("CHECK-ERROR:", msg)
		// a check that cannot run must not pass silently
		od := *outDir
		if od == "" {
			od = filepath.Join(*verif, "out", *prop)
		}
		os.MkdirAll(od, 0o755)
		rp := filepath.Join(od, "check-error.json")
		js, _ := json.MarshalIndent(map[string]any{"property": *prop, "error": msg}, "", " ")
		os.WriteFile(rp, js, 0o644)
		fmt.Printf("VIOLATION property=%s replay=%s no-failing-input-found\n", *prop, rp)
		return 1
	}
	if err := e.LoadContracts(filepath.Join(*verif, "govc", "lib")); err != nil {
		return fail("contracts: %v", err)
	}
	blocks := e.blocksFor(*prop)
	if *only != "" {
		var f []*Block
		for _, b := range blocks {
			if strings.Contains(b.PkgPath+"."+b.Key, *only) {
				f = append(f, b)
			}
		}
		blocks = f
	}
	if len(blocks) == 0 {
		return fail("no contract blocks are tagged with property %s", *prop)
	}
	if err := e.LoadPackages(e.packagesFor(blocks)); err != nil {
		return fail("load: %v", err)
	}
	if err := e.setupSpecs(); err != nil {
		return fail("specs: %v", err)
	}
	if err := e.setupAxioms(); err != nil {
		return fail("axioms: %v", err)
	}
	var units []*Unit
	var obls []*Obligation
	var bindErrs []string
	knownEarly := loadKnown(filepath.Join(*verif, "known_findings.json"))
	outside := map[*Obligation]*Obligation{}
	var extra []*Obligation
	for _, b := range blocks {
		if b.Flags["trusted"] {
			continue
		}
		if b.Kind == "struct" {
			x := e.runStructTags(b)
			units = append(units, x)
			obls = append(obls, x.obls...)
			continue
		}
		if b.Kind == "lemma" {
			x := e.runLemma(b)
			units = append(units, x)
			obls = append(obls, x.obls...)
			continue
		}
		pi, fd, lit, err := e.bind(b)
		if err != nil {
			bindErrs = append(bindErrs, err.Error())
			continue
		}
		x := e.newUnit(pi, b, fd, lit)
		x.run()
		units = append(units, x)
		obls = append(obls, x.obls...)
		// known findings with a witness: also ask whether the obligation can fail outside the recorded inputs
		for _, o := range x.obls {
			kf := matchKnown(knownEarly, *prop, o.Name)
			if kf == nil || kf.Witness == "" || o.WantSat {
				continue
			}
			we, perr := parserParseExpr(kf.Witness)
			if perr != nil {
				bindErrs = append(bindErrs, fmt.Sprintf("known finding %s: witness does not parse: %v", kf.Obligation, perr))
				continue
			}
			nerr := len(x.specErrors)
			w := x.specEval(x.entry, we, x.contractCtx(x.entry, nil))
			if len(x.specErrors) > nerr {
				bindErrs = append(bindErrs, fmt.Sprintf("known finding %s: witness: %s", kf.Obligation, strings.Join(x.specErrors[nerr:], "; ")))
				continue
			}
			out := &Obligation{Name: o.Name + "!outside-recorded-witness", Kind: "outside", PC: And(o.PC, Not(w.T)), Goal: o.Goal,
				NConsts: len(x.consts), NFacts: len(x.facts), Unit: x, Pos: o.Pos, Src: o.Src}
			outside[o] = out
			extra = append(extra, out)
		}
	}
	if len(bindErrs) > 0 {
		return fail("%s", strings.Join(bindErrs, "; "))
	}
	od := *outDir
	if od == "" {
		od = filepath.Join(*verif, "out", *prop)
	}
	os.RemoveAll(od)
	os.MkdirAll(od, 0o755)
	timeout := 15 * time.Second
	if *tier == "thorough" {
		timeout = 60 * time.Second
	}
	solveAll(append(append([]*Obligation{}, obls...), extra...), od, timeout, *tier == "thorough", 12, seed)

	known := loadKnown(filepath.Join(*verif, "known_findings.json"))
	// report
	exit := 0
	replaysDone := 0
	violations := 0
	nObl, nDis := 0, 0
	byBackend := map[string]int{}
	solverTime := 0.0
	var slowest []map[string]any
	var unitReports []unitReport
	var samples []map[string]any
	canarySat, canaryInconclusive := 0, 0
	knownSeen := []string{}
	assumptions := map[string]bool{}
	trusted := map[string]bool{}
	var problems []string
	for _, x := range units {
		ur := unitReport{Name: x.name}
		proved := true
		for _, s := range x.unsupported {
			ur.Unsupported = append(ur.Unsupported, s)
		}
		for _, s := range x.specErrors {
			ur.Unsupported = append(ur.Unsupported, s)
		}
		if len(ur.Unsupported) > 0 {
			proved = false
			problems = append(problems, fmt.Sprintf("%s: %s", x.name, strings.Join(ur.Unsupported, "; ")))
		}
		for a := range x.assumptions {
			assumptions[a] = true
		}
		for l := range x.libUsed {
			trusted["library semantics (built in): "+l] = true
		}
		for c := range x.calleesUsed {
			trusted["callee contract used at call sites: "+c] = true
			// a function contract that no property check ever verifies is an assumption, and is listed as one
			for k, b := range e.blocks {
				if b.Kind == "func" && !b.Flags["trusted"] && !b.Flags["inline"] && len(b.Props) == 0 && strings.Replace(k, "|", ".", 1) == c {
					trusted["ASSUMED (contract block without a property tag, never verified): "+c] = true
				}
			}
			for k, b := range e.blocks {
				if b.Kind == "func" && b.Flags["trusted"] && strings.Replace(k, "|", ".", 1) == c {
					trusted["TRUSTED (declared trusted, body not verified): "+c] = true
				}
			}
		}
		for _, o := range x.obls {
			if o.Result == nil {
				o.Result = &SolveResult{Status: "error", Raw: "not solved"}
			}
			solverTime += o.Result.Seconds
			if o.WantSat {
				switch o.Result.Status {
				case "sat":
					canarySat++
				case "unsat":
					proved = false
					violations++
					exit = 1
					rp := writeReplay(od, *prop, o, "vacuity: this point must be reachable but the assumptions are contradictory")
					fmt.Printf("VIOLATION property=%s replay=%s no-failing-input-found\n", *prop, rp)
				default:
					canaryInconclusive++
				}
				continue
			}
			nObl++
			ur.Obligations++
			if o.Discharged() {
				nDis++
				ur.Discharged++
				byBackend[o.Result.Solver]++
				if *verbose {
					fmt.Printf("  ok   %-8s %5.2fs %s\n", o.Result.Solver, o.Result.Seconds, o.Name)
				}
				continue
			}
			proved = false
			if kf := matchKnown(known, *prop, o.Name); kf != nil {
				if out := outside[o]; kf.Witness == "" || (out != nil && out.Discharged()) {
					fmt.Printf("KNOWN-FINDING: property=%s %s %s\n", *prop, o.Name, kf.What)
					knownSeen = append(knownSeen, o.Name)
					nObl--
					ur.Obligations--
					continue
				}
				// the obligation also fails for inputs the recorded finding does not cover: a different violation
				fmt.Printf("  (listed as a known finding, but it also fails outside the recorded witness %q)\n", kf.Witness)
			}
			violations++
			exit = 1
			why := "obligation not discharged: " + o.Result.Status
			// try to confirm the counterexample on the real code (a few per run: each replay compiles a test)
			if replaysDone < 4 && !*noReplay {
				o.Replay = replayObligation(o, *repo, od)
				if o.Replay != nil && o.Replay.Test != "" {
					replaysDone++ // only replays that compiled and ran a test count against the budget
				}
			}
			rp := writeReplay(od, *prop, o, why)
			suffix := ""
			if o.Replay == nil || !o.Replay.Confirmed {
				suffix = " no-failing-input-found"
			}
			fmt.Printf("VIOLATION property=%s replay=%s%s\n", *prop, rp, suffix)
			fmt.Printf("  failed obligation: %s (%s, %s)\n", o.Name, o.Result.Status, o.Pos)
		}
		ur.Proved = proved
		unitReports = append(unitReports, ur)
	}
	if len(problems) > 0 {
		exit = 1
		violations++
		rp := filepath.Join(od, "unsupported.json")
		js, _ := json.MarshalIndent(map[string]any{"property": *prop, "problems": problems}, "", " ")
		os.WriteFile(rp, js, 0o644)
		for _, p := range problems {
			fmt.Println("UNSUPPORTED:", p)
		}
		fmt.Printf("VIOLATION property=%s replay=%s no-failing-input-found\n", *prop, rp)
	}
	// evidence
	sort.Slice(obls, func(i, j int) bool {
		ri, rj := obls[i].Result, obls[j].Result
		if ri == nil || rj == nil {
			return false
		}
		return ri.Seconds > rj.Seconds
	})
	for i, o := range obls {
		if i >= 5 || o.Result == nil {
			break
		}
		slowest = append(slowest, map[string]any{"obligation": o.Name, "seconds": round3(o.Result.Seconds), "solver": o.Result.Solver})
	}
	ns := 0
	for _, x := range units {
		for _, o := range x.obls {
			if o.WantSat || ns >= 5 || o.Goal.IsTrue() {
				continue
			}
			if o.Kind == "ensures" || o.Kind == "at" || ns < 2 {
				samples = append(samples, map[string]any{
					"obligation": o.Name, "position": o.Pos.String(), "status": o.Result.Status,
					"goal_smt": truncate(o.Goal.S, 600), "path_condition": truncate(o.PC.S, 200),
				})
				ns++
			}
		}
	}
	var fnames, proved []string
	for _, ur := range unitReports {
		fnames = append(fnames, ur.Name)
		if ur.Proved {
			proved = append(proved, ur.Name)
		}
	}
	tb := []string{"z3 4.8.12 (/usr/bin/z3)", "z3-new 5.1.0", "cvc5 1.0.3", "govc VC generator (this repository's /verif/govc): translation of Go AST to SMT-LIB",
		"go/types type checker and golang.org/x/tools/go/packages v0.29.0"}
	tb = append(tb, sortedKeys(trusted)...)
	for i, n := range e.u.axiomName {
		_ = i
		tb = append(tb, "axiom: "+n)
	}
	ev := map[string]any{
		"property_id": *prop,
		"tier":        *tier,
		"seed":        seed,
		"level":       "proof",
		"coverage": map[string]any{
			"obligations":              nObl,
			"discharged":               nDis,
			"checker_cmd":              fmt.Sprintf("bin/govc check --property %s --tier %s", *prop, *tier),
			"trusted_base":             tb,
			"functions_under_contract": fnames,
			"functions_proved":         proved,
			"by_backend":               byBackend,
			"solver_time_s":            round3(solverTime),
			"slowest":                  slowest,
			"vacuity_checks":           map[string]int{"reachable_confirmed_sat": canarySat, "inconclusive": canaryInconclusive},
			"known_findings_seen":      knownSeen,
			"samples":                  samples,
			"units":                    unitReports,
			"integers":                 "mathematical integers (no overflow) unless stated",
			"floats":                   "float64 treated as exact reals",
		},
		"assumptions": sortedKeys(assumptions),
		"wall_s":      round3(time.Since(t0).Seconds()),
		"violations":  violations,
	}
	if *tier == "thorough" && !*noEvidence {
		cov := ev["coverage"].(map[string]any)
		cov["must_fail_corpus"] = runCorpus(*prop, *repo, *verif)
		fmt.Printf("must-fail corpus: %v\n", cov["must_fail_corpus"].(map[string]any)["summary"])
	}
	if !*noEvidence {
		os.MkdirAll(filepath.Join(*verif, "evidence"), 0o755)
		js, _ := json.MarshalIndent(ev, "", " ")
		os.WriteFile(filepath.Join(*verif, "evidence", *prop+".json"), js, 0o644)
	}
	fmt.Printf("property=%s tier=%s units=%d proved=%d obligations=%d discharged=%d canaries(sat/inconclusive)=%d/%d known=%d wall=%.1fs exit=%d\n",
		*prop, *tier, len(units), len(proved), nObl, nDis, canarySat, canaryInconclusive, len(knownSeen), time.Since(t0).Seconds(), exit)
	return exit
}

func round3(f float64) float64 { return float64(int(f*1000+0.5)) / 1000 }

func truncate(s string, n int) string {
	if len(s) > n {
		return s[:n] + "…"
	}
	return s
}

func loadKnown(path string) *knownFile {
	var kf knownFile
	b, err := os.ReadFile(path)
	if err != nil {
		return &kf
	}
	json.Unmarshal(b, &kf)
	return &kf
}

func matchKnown(k *knownFile, prop, obl string) *knownFinding {
	for i := range k.Findings {
		f := &k.Findings[i]
		if f.Obligation == obl { // obligation names are unique; the same function may serve several properties
			return f
		}
	}
	return nil
}

func replayConfirmed(o *Obligation) bool { return o.Result != nil && o.Result.Status == "confirmed" }

func writeReplay(dir, prop string, o *Obligation, why string) string {
	rp := filepath.Join(dir, sanitizeFile(o.Name)+".replay.json")
	m := map[string]any{
		"property":      prop,
		"obligation":    o.Name,
		"kind":          o.Kind,
		"position":      o.Pos.String(),
		"why":           why,
		"status":        o.Result.Status,
		"solver":        o.Result.Solver,
		"model":         o.Result.Model,
		"solver_output": truncate(o.Result.Raw, 4000),
		"goal":          truncate(o.Goal.S, 4000),
		"smt_script":    filepath.Join(dir, sanitizeFile(o.Name)+".smt2"),
		"note":          o.HeapNote,
	}
	if o.Replay != nil {
		m["replay_on_real_code"] = o.Replay
		if !o.Replay.Confirmed {
			m["no_failing_input_found"] = o.Replay.Reason
		}
	} else {
		m["no_failing_input_found"] = "no replay was attempted for this obligation"
	}
	js, _ := json.MarshalIndent(m, "", " ")
	os.WriteFile(rp, js, 0o644)
	return rp
}

// setupAxioms evaluates the user axioms (closed formulas) once.
func (e *Engine) setupAxioms() error {
	if e.axiomsDone {
		return nil
	}
	e.axiomsDone = true
	for _, ax := range e.axioms {
		pkg := e.typesPkg(ax.PkgPath)
		if ax.PkgPath != "" && pkg == nil {
			continue
		}
		x := &Unit{eng: e, u: e.u, assumptions: map[string]bool{}, oblNames: map[string]int{}, unitNames: map[string]Val{}, name: "axiom " + ax.Name}
		x.entry = &State{pc: True, heap: map[string]T{}, ghost: map[string]Val{}, spec: map[string]Val{}}
		x.entry.epoch = x.newEpoch()
		st := x.entry.clone()
		x.binders++
		v := x.specEval(st, ax.Expr, &specCtx{names: map[string]Val{}, pkg: pkg})
		x.binders--
		if len(x.specErrors) > 0 {
			return fmt.Errorf("axiom %s: %s", ax.Name, strings.Join(x.specErrors, "; "))
		}
		if len(x.consts) > 0 {
			return fmt.Errorf("axiom %s is not closed (it mentions program state)", ax.Name)
		}
		e.u.axioms = append(e.u.axioms, addPatterns(v.S))
		e.u.axiomName = append(e.u.axiomName, ax.Name+": "+ax.Text)
	}
	return nil
}

// addPatterns leaves trigger selection to the solver.
func addPatterns(s string) string { return s }
