package main

import (
	"fmt"
	"go/types"
	"regexp"
	"sort"
	"strings"
)

// Universe holds the SMT declarations shared by all obligations of one unit.
type Universe struct {
	sortDecls []string          // in dependency order
	sortSeen  map[string]bool   // by sort name
	funDecls  map[string]string // name -> declaration line
	funOrder  []string
	typeIDs   map[string]int
	typeSort  map[string]Sort // memo by types.TypeString
	structOf  map[Sort]*structInfo
	sliceElem map[Sort]Sort
	mapKV     map[Sort][2]Sort
	strLits   map[string]string // literal -> const name
	strOrder  []string
	axioms    []string // global axioms (string literals, spec functions, user axioms)
	axiomName []string
}

type structInfo struct {
	name    string
	ctor    string
	fields  []string // selector names
	fsorts  []Sort
	gonames []string
}

func NewUniverse() *Universe {
	u := &Universe{
		sortSeen:  map[string]bool{},
		funDecls:  map[string]string{},
		typeIDs:   map[string]int{},
		typeSort:  map[string]Sort{},
		structOf:  map[Sort]*structInfo{},
		sliceElem: map[Sort]Sort{},
		mapKV:     map[Sort][2]Sort{},
		strLits:   map[string]string{},
	}
	u.sortDecls = append(u.sortDecls,
		"(define-sort Str () Int)", // strings are opaque identifiers; literal k is the numeral k ("" is 0)
		"(declare-datatypes ((Iface 0)) (((mk-iface (ityp Int) (ival Int)))))",
	)
	u.DeclFun("gs.len", "(Str) Int")
	u.DeclFun("gs.at", "(Str Int) Int")
	u.DeclFun("gs.cat", "(Str Str) Str")
	u.DeclFun("gs.sub", "(Str Int Int) Str")
	u.DeclFun("ptag", "(Int) Int")
	u.DeclFun("proot", "(Int) Int")
	u.axioms = append(u.axioms,
		"(forall ((s Str)) (! (>= (gs.len s) 0) :pattern ((gs.len s))))",
		"(forall ((a Str) (b Str)) (! (= (gs.len (gs.cat a b)) (+ (gs.len a) (gs.len b))) :pattern ((gs.cat a b))))",
	)
	u.axioms = append(u.axioms, "(= (proot 0) 0)")
	u.axioms = append(u.axioms, "(forall ((s Str)) (! (=> (= (gs.len s) 0) (= s 0)) :pattern ((gs.len s))))")
	u.axiomName = append(u.axiomName, "str.len>=0", "str.cat.len", "proot(nil)=nil", "the empty string is the only string of length 0")
	return u
}

func (u *Universe) DeclFun(name, sig string) {
	if _, ok := u.funDecls[name]; ok {
		return
	}
	u.funDecls[name] = fmt.Sprintf("(declare-fun %s %s)", name, sig)
	u.funOrder = append(u.funOrder, name)
}

func (u *Universe) DefFun(name, def string) {
	if _, ok := u.funDecls[name]; ok {
		return
	}
	u.funDecls[name] = def
	u.funOrder = append(u.funOrder, name)
}

func (u *Universe) Preamble() string {
	var b strings.Builder
	for _, d := range u.sortDecls {
		b.WriteString(d)
		b.WriteByte('\n')
	}
	for _, n := range u.funOrder {
		b.WriteString(u.funDecls[n])
		b.WriteByte('\n')
	}
	return b.String()
}

var anyWord = regexp.MustCompile(`\bany\b`)

// canonType: the printed form of a type with the alias `any` written as interface{} (types from contracts are built
// with interface{}, types from the program may print the alias).
func canonType(t types.Type) string {
	return anyWord.ReplaceAllString(canonStr(t), "interface{}")
}

// canonStr: types.TypeString without the parameter and result names of function types (identical types, one text).
func canonStr(t types.Type) string {
	switch tt := types.Unalias(t).(type) {
	case *types.Signature:
		tup := func(tp *types.Tuple, variadic bool) string {
			var ps []string
			for i := 0; i < tp.Len(); i++ {
				e := tp.At(i).Type()
				if variadic && i == tp.Len()-1 {
					if sl, ok := e.(*types.Slice); ok {
						ps = append(ps, "..."+canonStr(sl.Elem()))
						continue
					}
				}
				ps = append(ps, canonStr(e))
			}
			return strings.Join(ps, ", ")
		}
		out := "func(" + tup(tt.Params(), tt.Variadic()) + ")"
		switch tt.Results().Len() {
		case 0:
		case 1:
			out += " " + canonStr(tt.Results().At(0).Type())
		default:
			out += " (" + tup(tt.Results(), false) + ")"
		}
		return out
	case *types.Pointer:
		return "*" + canonStr(tt.Elem())
	case *types.Slice:
		return "[]" + canonStr(tt.Elem())
	case *types.Array:
		return fmt.Sprintf("[%d]%s", tt.Len(), canonStr(tt.Elem()))
	case *types.Map:
		return "map[" + canonStr(tt.Key()) + "]" + canonStr(tt.Elem())
	}
	return types.TypeString(t, nil)
}

func (u *Universe) TypeID(t types.Type) int {
	k := canonType(t)
	if id, ok := u.typeIDs[k]; ok {
		return id
	}
	id := len(u.typeIDs) + 1
	u.typeIDs[k] = id
	return id
}

func (u *Universe) TypeIDNames() []string {
	var out []string
	for k, v := range u.typeIDs {
		out = append(out, fmt.Sprintf("%d=%s", v, k))
	}
	sort.Strings(out)
	return out
}

func isNamed(t types.Type, pkg, name string) bool {
	t = types.Unalias(t)
	n, ok := t.(*types.Named)
	if !ok {
		return false
	}
	o := n.Obj()
	return o.Name() == name && o.Pkg() != nil && o.Pkg().Path() == pkg
}

// SortOf maps a Go type to an SMT sort, declaring datatypes on demand.
func (u *Universe) SortOf(t types.Type) Sort {
	t = types.Unalias(t)
	key := types.TypeString(t, nil)
	if s, ok := u.typeSort[key]; ok {
		return s
	}
	s := u.sortOf1(t, key)
	u.typeSort[key] = s
	return s
}

func (u *Universe) sortOf1(t types.Type, key string) Sort {
	if isNamed(t, "time", "Time") {
		return SInt
	}
	if isNamed(t, "math/big", "Int") {
		return SInt
	}
	switch tt := t.(type) {
	case *types.Basic:
		switch {
		case tt.Info()&types.IsBoolean != 0:
			return SBool
		case tt.Info()&types.IsInteger != 0:
			return SInt
		case tt.Info()&types.IsFloat != 0:
			return SReal
		case tt.Info()&types.IsString != 0:
			return SStr
		case tt.Kind() == types.UnsafePointer:
			return SInt
		case tt.Kind() == types.UntypedNil:
			return SInt
		case tt.Info()&types.IsComplex != 0:
			return SReal
		}
		return SInt
	case *types.Named:
		und := tt.Underlying()
		if st, ok := und.(*types.Struct); ok {
			return u.structSort(mangle(key), st)
		}
		return u.SortOf(und)
	case *types.Pointer, *types.Chan, *types.Signature:
		return SInt
	case *types.Struct:
		return u.structSort("anon_"+mangle(key), tt)
	case *types.Slice:
		es := u.SortOf(tt.Elem())
		return u.sliceSort(es)
	case *types.Array:
		return ArraySort(SInt, u.SortOf(tt.Elem()))
	case *types.Map:
		u.mapSort(u.SortOf(tt.Key()), u.SortOf(tt.Elem())) // content datatype, used through the heap
		return SInt
	case *types.Interface:
		return SIface
	case *types.TypeParam:
		if it, ok := tt.Constraint().Underlying().(*types.Interface); ok && it.NumMethods() > 0 {
			return SIface // a value of a type parameter constrained by methods is used like an interface value
		}
		name := "TP_" + mangle(tt.Obj().Name())
		if !u.sortSeen[name] {
			u.sortSeen[name] = true
			u.sortDecls = append(u.sortDecls, fmt.Sprintf("(declare-sort %s 0)", name))
		}
		return Sort(name)
	case *types.Tuple:
		return SInt
	}
	return SInt
}

func sortIdent(s Sort) string {
	return mangle(strings.NewReplacer("(", "L", ")", "R", " ", "_").Replace(string(s)))
}

func (u *Universe) sliceSort(es Sort) Sort {
	name := "Slice_" + sortIdent(es)
	if !u.sortSeen[name] {
		u.sortSeen[name] = true
		u.sortDecls = append(u.sortDecls, fmt.Sprintf(
			"(declare-datatypes ((%s 0)) (((mk-%s (len-%s Int) (cap-%s Int) (arr-%s (Array Int %s))))))",
			name, name, name, name, name, es))
		u.sliceElem[Sort(name)] = es
	}
	return Sort(name)
}

func (u *Universe) mapSort(ks, vs Sort) Sort {
	name := "Map_" + sortIdent(ks) + "_" + sortIdent(vs)
	if !u.sortSeen[name] {
		u.sortSeen[name] = true
		u.sortDecls = append(u.sortDecls, fmt.Sprintf(
			"(declare-datatypes ((%s 0)) (((mk-%s (nil-%s Bool) (len-%s Int) (dom-%s (Array %s Bool)) (val-%s (Array %s %s))))))",
			name, name, name, name, name, ks, name, ks, vs))
		u.mapKV[Sort(name)] = [2]Sort{ks, vs}
	}
	return Sort(name)
}

func (u *Universe) structSort(name string, st *types.Struct) Sort {
	name = "S_" + name
	if u.sortSeen[name] {
		return Sort(name)
	}
	u.sortSeen[name] = true
	si := &structInfo{name: name, ctor: "mk-" + name}
	var fs []string
	for i := 0; i < st.NumFields(); i++ {
		f := st.Field(i)
		fsrt := u.SortOf(f.Type())
		sel := fmt.Sprintf("%s.%s", name, mangle(f.Name()))
		if f.Name() == "_" {
			sel = fmt.Sprintf("%s._%d", name, i)
		}
		si.fields = append(si.fields, sel)
		si.fsorts = append(si.fsorts, fsrt)
		si.gonames = append(si.gonames, f.Name())
		fs = append(fs, fmt.Sprintf("(%s %s)", sel, fsrt))
	}
	if len(fs) == 0 {
		u.sortDecls = append(u.sortDecls, fmt.Sprintf("(declare-datatypes ((%s 0)) (((%s))))", name, si.ctor))
	} else {
		u.sortDecls = append(u.sortDecls, fmt.Sprintf("(declare-datatypes ((%s 0)) (((%s %s))))", name, si.ctor, strings.Join(fs, " ")))
	}
	u.structOf[Sort(name)] = si
	return Sort(name)
}

// --- slices / maps helpers

func (u *Universe) SliceLen(s T) T { return App(SInt, "len-"+string(s.Sort), s) }
func (u *Universe) SliceCap(s T) T { return App(SInt, "cap-"+string(s.Sort), s) }
func (u *Universe) SliceArr(s T) T {
	return App(ArraySort(SInt, u.sliceElem[s.Sort]), "arr-"+string(s.Sort), s)
}
func (u *Universe) MkSlice(srt Sort, ln, cp, arr T) T {
	return App(srt, "mk-"+string(srt), ln, cp, arr)
}
func (u *Universe) MapNil(m T) T { return App(SBool, "nil-"+string(m.Sort), m) }
func (u *Universe) MapLen(m T) T { return App(SInt, "len-"+string(m.Sort), m) }
func (u *Universe) MapDom(m T) T {
	return App(ArraySort(u.mapKV[m.Sort][0], SBool), "dom-"+string(m.Sort), m)
}
func (u *Universe) MapVal(m T) T {
	kv := u.mapKV[m.Sort]
	return App(ArraySort(kv[0], kv[1]), "val-"+string(m.Sort), m)
}
func (u *Universe) MkMap(srt Sort, isnil, ln, dom, val T) T {
	return App(srt, "mk-"+string(srt), isnil, ln, dom, val)
}

// StructField selects field i of a struct-sorted term.
func (u *Universe) StructField(s T, i int) T {
	si := u.structOf[s.Sort]
	return App(si.fsorts[i], si.fields[i], s)
}

func (u *Universe) StructUpdate(s T, i int, v T) T {
	si := u.structOf[s.Sort]
	args := make([]T, len(si.fields))
	for j := range si.fields {
		if j == i {
			args[j] = v
		} else {
			args[j] = App(si.fsorts[j], si.fields[j], s)
		}
	}
	return App(s.Sort, si.ctor, args...)
}

func (u *Universe) MkStruct(srt Sort, args []T) T {
	si := u.structOf[srt]
	if len(si.fields) == 0 {
		return T{si.ctor, srt}
	}
	return App(srt, si.ctor, args...)
}

// StrLit returns the constant for a string literal and records its axioms.
func (u *Universe) StrLit(s string) T {
	if n, ok := u.strLits[s]; ok {
		return T{n, SStr}
	}
	n := fmt.Sprintf("%d", len(u.strLits)+1)
	if s == "" {
		n = "0"
	}
	u.strLits[s] = n
	u.strOrder = append(u.strOrder, s)
	return T{n, SStr}
}

// StrAxioms: lengths, characters (short literals) and pairwise distinctness.
func (u *Universe) StrAxioms() []string {
	var out []string
	var names []string
	for _, s := range u.strOrder {
		n := u.strLits[s]
		names = append(names, n)
		out = append(out, fmt.Sprintf("(= (gs.len %s) %d)", n, len(s)))
		if len(s) <= 24 {
			for i := 0; i < len(s); i++ {
				out = append(out, fmt.Sprintf("(= (gs.at %s %d) %d)", n, i, s[i]))
			}
		}
	}
	_ = names
	return out
}

// Box functions for interface payloads of non-Int sorts.
func (u *Universe) Box(v T) T {
	if v.Sort == SInt {
		return v
	}
	id := sortIdent(v.Sort)
	u.DeclFun("box_"+id, fmt.Sprintf("(%s) Int", v.Sort))
	u.DeclFun("unbox_"+id, fmt.Sprintf("(Int) %s", v.Sort))
	return App(SInt, "box_"+id, v)
}

func (u *Universe) Unbox(ref T, srt Sort) T {
	if srt == SInt {
		return ref
	}
	id := sortIdent(srt)
	u.DeclFun("box_"+id, fmt.Sprintf("(%s) Int", srt))
	u.DeclFun("unbox_"+id, fmt.Sprintf("(Int) %s", srt))
	return App(srt, "unbox_"+id, ref)
}

func IfaceTyp(i T) T { return App(SInt, "ityp", i) }
func IfaceVal(i T) T { return App(SInt, "ival", i) }
func MkIface(typ, val T) T {
	return App(SIface, "mk-iface", typ, val)
}

var IfaceNil = T{"(mk-iface 0 0)", SIface}

// MapDT is the datatype sort of the contents of a map of Go type t (maps themselves are references).
func (u *Universe) MapDT(t types.Type) Sort {
	m := under(t).(*types.Map)
	return u.mapSort(u.SortOf(m.Key()), u.SortOf(m.Elem()))
}
