package main

import (
	"fmt"
	"go/ast"
	"go/token"
	"go/types"
	"strings"
)

// newUnit prepares the verification of one function (declaration or literal) against block b.
func (e *Engine) newUnit(pi *pkgInfo, b *Block, decl *ast.FuncDecl, lit *ast.FuncLit) *Unit {
	x := &Unit{
		eng: e, u: e.u, pkg: pi.pkg, info: pi.pkg.TypesInfo, block: b,
		name: shortPkg(pi.pkg.PkgPath) + "." + b.Key, decl: decl, lit: lit,
		boxed: map[types.Object]T{}, assumptions: map[string]bool{}, libUsed: map[string]bool{},
		calleesUsed: map[string]bool{}, oblNames: map[string]int{}, atSeen: map[int]int{}, callOrd: map[string]int{},
		unitNames: map[string]Val{}, closureBlocks: map[string]*Block{},
	}
	return x
}

func shortPkg(p string) string {
	return strings.TrimPrefix(p, "github.com/yandex/pandora/")
}

// run symbolically executes the body and generates all obligations.
func (x *Unit) run() {
	defer func() {
		if r := recover(); r != nil {
			x.unsupported = append(x.unsupported, fmt.Sprintf("internal error: %v", r))
			if x.eng.debug {
				panic(r)
			}
		}
	}()
	var body *ast.BlockStmt
	var ftype *ast.FuncType
	if x.lit != nil {
		body, ftype = x.lit.Body, x.lit.Type
		x.sig = x.info.TypeOf(x.lit).(*types.Signature)
	} else {
		body, ftype = x.decl.Body, x.decl.Type
		x.sig = x.info.Defs[x.decl.Name].Type().(*types.Signature)
	}
	_ = ftype
	st := &State{pc: True, env: map[types.Object]Val{}, heap: map[string]T{}, ghost: map[string]Val{}, spec: map[string]Val{}, panicking: False}
	st.epoch = x.newEpoch()
	x.entry = &State{pc: True, env: map[types.Object]Val{}, heap: map[string]T{}, ghost: map[string]Val{}, spec: map[string]Val{}, panicking: False, epoch: st.epoch}
	alloc0 := x.fresh("alloc0", SInt)
	x.fact(Cmp(">=", alloc0, IntLit(0)))
	st.alloc = alloc0
	x.entry.alloc = alloc0
	x.inputs = append(x.inputs, alloc0.S)

	fr := &frame{fnType: x.sig, loopBase: x.block.Key, loopN: new(int)}
	x.fr = fr
	// locals whose address is taken live in the heap
	ast.Inspect(body, func(n ast.Node) bool {
		ue, ok := n.(*ast.UnaryExpr)
		if !ok || ue.Op != token.AND {
			return true
		}
		if id, ok := ast.Unparen(ue.X).(*ast.Ident); ok {
			if o, ok := x.info.Uses[id].(*types.Var); ok && !o.IsField() && o.Parent() != o.Pkg().Scope() {
				if _, done := x.boxed[o]; !done {
					r := x.alloc(st)
					x.boxed[o] = r
				}
			}
		}
		return true
	})
	// boxed locals are objects of this call: allocated after entry (the frame does not cover them, parameters cannot alias them)
	allocAfterBoxing := st.alloc
	// receiver and parameters
	bindParam := func(v *types.Var, isRecv bool) {
		if v == nil {
			return
		}
		val := Val{x.fresh(v.Name(), x.u.SortOf(v.Type())), v.Type()}
		x.inputs = append(x.inputs, val.S)
		st.alloc = alloc0
		x.assume(st, x.typeInv(st, val, 0))
		st.alloc = allocAfterBoxing
		if isRecv {
			if _, ok := under(v.Type()).(*types.Pointer); ok {
				x.assume(st, Cmp(">", val.T, IntLit(0)))
			}
		}
		if _, boxedVar := x.boxed[v]; boxedVar {
			x.writeVar(st, v, val)
		} else {
			st.env[v] = val
		}
		x.entry.env[v] = val
		if v.Name() != "" && v.Name() != "_" {
			x.unitNames[v.Name()+"0"] = val
		}
	}
	bindParam(x.sig.Recv(), true)
	for i := 0; i < x.sig.Params().Len(); i++ {
		bindParam(x.sig.Params().At(i), false)
	}
	// parameters renamed since the contracts were written keep their old entry-value names (lib/names.json)
	if _, key := x.enclosingDecl(); key != "" && x.lit == nil {
		if bn, ok := x.eng.baseNames[key]; ok {
			for i, n := range bn.Params {
				if i < x.sig.Params().Len() && n != "" && n != "_" && x.sig.Params().At(i).Name() != n {
					if _, taken := x.unitNames[n+"0"]; !taken {
						x.unitNames[n+"0"] = x.entry.env[x.sig.Params().At(i)]
					}
				}
			}
		}
	}
	// results
	for i := 0; i < x.sig.Results().Len(); i++ {
		r := x.sig.Results().At(i)
		var o types.Object = r
		if r.Name() == "" || r.Name() == "_" {
			o = types.NewVar(token.NoPos, x.pkg.Types, fmt.Sprintf("$ret%d", i), r.Type())
		}
		fr.results = append(fr.results, o)
		st.env[o] = x.zero(r.Type())
	}
	// ghosts: initialise everything declared so that merges never need lazy lookups
	for _, name := range sortedKeys(x.eng.ghostDecls) {
		x.ghostGet(st, name)
	}
	x.fact(Cmp(">=", x.ghostGet(st, "now").T, IntLit(0)))
	// no lock of an object that does not exist yet is held
	lh := x.ghostGet(st, "lockHeld")
	x.fact(T{fmt.Sprintf("(forall ((a!lk Int)) (! (=> (> (proot a!lk) %s) (= (select %s a!lk) 0)) :pattern ((select %s a!lk))))",
		alloc0.S, x.u.MapVal(lh.T).S, x.u.MapVal(lh.T).S), SBool})
	// this call has not released any lock yet (stated only for units that touch a lock: see lockOp)
	x.lockRel0 = x.ghostGet(st, "lockReleased")
	for k, v := range st.ghost {
		x.entry.ghost[k] = v
	}
	for k, v := range st.heap {
		x.entry.heap[k] = v
	}
	// contract: ghost lets and requires
	c := x.contractCtx(st, nil)
	for _, cl := range x.block.Clauses {
		if cl.Kind == "ghost" {
			v := x.specEval(st, cl.Expr, c)
			st.spec[cl.GhostName] = v
			x.unitNames[cl.GhostName] = v
		}
	}
	for _, cl := range x.block.ClausesOf("requires") {
		x.assume(st, x.specEval(st, cl.Expr, c).T)
	}
	for _, cl := range x.block.ClausesOf("captures") {
		x.assume(st, x.specEval(st, cl.Expr, c).T)
	}
	for _, cl := range x.block.ClausesOf("env") {
		x.assume(st, x.specEval(st, cl.Expr, c).T)
		x.note("environment assumption in " + x.name + ": " + cl.Text)
	}
	x.entry.pc = st.pc
	x.entry.spec = st.spec
	for k, v := range st.heap {
		x.entry.heap[k] = v
	}
	for k, v := range st.ghost {
		x.entry.ghost[k] = v
	}
	vac := x.oblige(st, "vacuity", "requires-satisfiable", False, nil)
	vac.WantSat = true
	vac.Kind = "canary"

	end := x.execBlock(st.clone(), body.List, newFlow())
	if end != nil {
		fr.returns = append(fr.returns, end)
	}
	ret, pan := x.finishFrame(fr)

	if ret != nil {
		can := x.oblige(ret, "canary", "exit-reachable", False, nil)
		can.WantSat = true
		can.Kind = "canary"
		ec := x.contractCtx(ret, fr)
		for _, cl := range x.block.ClausesOf("let") {
			ec.names[cl.GhostName] = x.specEval(ret, cl.Expr, ec)
		}
		for i, cl := range x.block.ClausesOf("ensures") {
			g := x.specEval(ret, cl.Expr, ec)
			x.oblige(ret, "ensures", clauseLabel(cl, i), g.T, nil)
		}
		x.frameCheck(ret, "frame", nil)
		x.capturedCheck(ret)
	} else if len(x.block.ClausesOf("ensures")) > 0 && len(x.unsupported) == 0 {
		// no normal exit at all: contracts about results are vacuous; say so loudly
		x.unsupported = append(x.unsupported, "function has no reachable normal exit")
	}
	if pan != nil {
		pc := x.contractCtx(pan, fr)
		mp := x.block.ClausesOf("may_panic")
		var allowed []T
		for _, cl := range mp {
			allowed = append(allowed, x.specEval(x.entry, cl.Expr, x.contractCtx(x.entry, nil)).T)
		}
		x.oblige(pan, "nopanic", "panic-free", Or(allowed...), nil)
		for i, cl := range x.block.ClausesOf("panics_ensures") {
			g := x.specEval(pan, cl.Expr, pc)
			x.oblige(pan, "panics_ensures", clauseLabel(cl, i), g.T, nil)
		}
	}
	// every at-clause must have matched a site
	for i, cl := range x.block.Clauses {
		if cl.Kind == "at" && x.atSeen[i] == 0 {
			x.unsupported = append(x.unsupported, fmt.Sprintf("at-clause matched no site: at %s %s", cl.AtKind, cl.AtName))
		}
	}
}

// contractCtx: naming environment of the unit's own contract (requires at entry, ensures at exit).
func (x *Unit) contractCtx(st *State, fr *frame) *specCtx {
	c := &specCtx{names: map[string]Val{}, old: x.entry, pkg: x.pkg.Types, what: x.block.Key}
	for k, v := range x.unitNames {
		c.names[k] = v
	}
	bind := func(v *types.Var) {
		if v == nil || v.Name() == "" || v.Name() == "_" {
			return
		}
		c.names[v.Name()] = x.readVar(st, v)
	}
	bindParam := bind
	if fr != nil && x.entry != nil {
		// In an exit clause a parameter name means the value the caller passed (parameters are the callee's own variables:
		// what it assigns to them is invisible to the caller, which reads the clause with its arguments).
		bindParam = func(v *types.Var) {
			if v == nil || v.Name() == "" || v.Name() == "_" {
				return
			}
			if ev, ok := x.entry.env[v]; ok {
				c.names[v.Name()] = ev
				return
			}
			c.names[v.Name()] = x.readVar(st, v)
		}
	}
	bindParam(x.sig.Recv())
	for i := 0; i < x.sig.Params().Len(); i++ {
		bindParam(x.sig.Params().At(i))
	}
	if fr != nil {
		for i, o := range fr.results {
			v := x.readVar(st, o)
			c.names[fmt.Sprintf("result%d", i)] = v
			if i == 0 {
				c.names["result"] = v
			}
			if n := x.sig.Results().At(i).Name(); n != "" && n != "_" {
				c.names[n] = v
			}
		}
	}
	// captured variables of the enclosing function (literal units)
	if x.lit != nil {
		c.scope = x.pkg.Types.Scope().Innermost(x.lit.Body.Lbrace + 1)
		c.pos = x.lit.Body.Lbrace + 1
	} else if x.decl != nil && x.decl.Body != nil {
		c.scope = x.pkg.Types.Scope().Innermost(x.decl.Body.Lbrace + 1)
		c.pos = x.decl.Body.Lbrace + 1
	}
	if fr != nil && c.pos.IsValid() {
		// exit clauses may mention locals declared at the top level of the body (their value at the exit)
		if x.lit != nil {
			c.pos = x.lit.Body.Rbrace
		} else {
			c.pos = x.decl.Body.Rbrace
		}
	}
	// names the contract uses for parameters and named results that have been renamed since (lib/names.json)
	if _, key := x.enclosingDecl(); key != "" && x.lit == nil {
		if bn, ok := x.eng.baseNames[key]; ok {
			for i, n := range bn.Params {
				if i < x.sig.Params().Len() && n != "" && n != "_" {
					if cur := x.sig.Params().At(i).Name(); cur != n {
						if v, has := c.names[cur]; has {
							if _, taken := c.names[n]; !taken {
								c.names[n] = v
							}
						}
					}
				}
			}
			if fr != nil {
				for i, n := range bn.Results {
					if i < x.sig.Results().Len() && n != "" && n != "_" {
						if v, has := c.names[fmt.Sprintf("result%d", i)]; has {
							if _, taken := c.names[n]; !taken {
								c.names[n] = v
							}
						}
					}
				}
			}
		}
	}
	return c
}

// frameCheck: everything outside the modifies clauses is unchanged at exit (pre-existing objects only).
// frameGoal: location family `key` must agree with the expected (entry + declared modifications) version.
type frameGoal struct {
	key     string
	idxSort Sort
	// formula for index idx (empty idxSort: a plain equality)
	at func(idx T) T
}

// frameGoals computes, for state st, what "everything outside the modifies clauses is unchanged since entry" means.
// ok=false: the function declares no frame (no modifies clause, or modifies *).
func (x *Unit) frameGoals(st *State) (goals []frameGoal, ok bool) {
	hasMod := false
	for _, cl := range x.block.Clauses {
		if cl.Kind == "modifies" {
			hasMod = true
		}
	}
	if !hasMod {
		return nil, false
	}
	// expected = entry state with the declared locations overwritten by their current values
	exp := x.entry.clone()
	for _, cl := range x.block.Clauses {
		if cl.Kind != "modifies" {
			continue
		}
		for _, m := range cl.Mods {
			if id, isId := m.(*ast.Ident); isId && id.Name == "*" {
				return nil, false
			}
			c0 := x.contractCtx(x.entry, nil)
			lv := x.specLV(x.entry, m, c0)
			if lv == nil {
				continue
			}
			x.writeLV(exp, lv, x.readLV(st, lv))
		}
	}
	if st.epoch != x.entry.epoch {
		goals = append(goals, frameGoal{key: "heap (a callee with 'modifies *' was used)", at: func(T) T { return False }})
		return goals, true
	}
	for _, k := range sortedKeys(st.heap) {
		h := st.heap[k]
		want, have := exp.heap[k]
		if !have {
			want = x.epochLookup(x.entry.epoch, k, h.Sort)
		}
		if want.S == h.S {
			continue
		}
		hh, ww := h, want
		goals = append(goals, frameGoal{key: k, idxSort: SInt, at: func(r T) T {
			return Imp(And(Cmp(">", r, IntLit(0)), Cmp("<=", x.proot(r), x.entry.alloc)), Eq(Select(hh, r), Select(ww, r)))
		}})
	}
	for _, k := range sortedKeys(st.ghost) {
		g := st.ghost[k]
		if k == "now" || k == "syncedWith" || k == "lockReleased" || strings.HasPrefix(k, "res:") || strings.HasPrefix(k, "let:") || strings.HasPrefix(k, "calls:") {
			continue
		}
		want, have := exp.ghost[k]
		if !have {
			want, have = x.entry.ghost[k]
			if !have {
				continue
			}
		}
		if want.S == g.S {
			continue
		}
		gg, ww := g, want
		if kv, isMap := x.u.mapKV[g.Sort]; isMap {
			refKeyed := k == "chanClosed" || k == "chanSent" || k == "timerDeadline" || k == "lockHeld"
			if gd := x.eng.ghostDecls[k]; gd != nil && gd.refKeyed {
				refKeyed = true
			}
			goals = append(goals, frameGoal{key: "ghost " + k, idxSort: kv[0], at: func(kq T) T {
				eq := Eq(Select(x.u.MapVal(gg.T), kq), Select(x.u.MapVal(ww.T), kq))
				if refKeyed {
					// attributes of objects allocated by this function are its own business
					return Imp(Cmp("<=", x.proot(kq), x.entry.alloc), eq)
				}
				return eq
			}})
		} else {
			goals = append(goals, frameGoal{key: "ghost " + k, at: func(T) T { return Eq(gg.T, ww.T) }})
		}
	}
	return goals, true
}

// frameCheck: everything outside the modifies clauses is unchanged at st (pre-existing objects only).
func (x *Unit) frameCheck(st *State, kind string, n ast.Node) {
	goals, ok := x.frameGoals(st)
	if !ok {
		return
	}
	for _, g := range goals {
		var idx T
		if g.idxSort != "" {
			idx = x.fresh("frameidx", g.idxSort)
		}
		x.oblige(st, kind, g.key, g.at(idx), n)
	}
}

// frameAssume: assume the frame at a loop head (it is checked on entry and at the back edge).
func (x *Unit) frameAssume(st *State) {
	goals, ok := x.frameGoals(st)
	if !ok {
		return
	}
	for _, g := range goals {
		if g.idxSort == "" {
			x.assume(st, g.at(T{}))
			continue
		}
		q := T{x.nfreshName("fr"), g.idxSort}
		x.binders++
		body := g.at(q)
		x.binders--
		x.assume(st, T{fmt.Sprintf("(forall ((%s %s)) %s)", q.S, q.Sort, body.S), SBool})
	}
}

// capturedCheck: a function literal whose contract declares a frame must leave the variables it captures unchanged
// unless they are listed (a closure shared between goroutines that assigns its captured variables keeps state between calls).
func (x *Unit) capturedCheck(ret *State) {
	if x.lit == nil {
		return
	}
	if _, ok := x.frameGoals(ret); !ok {
		return
	}
	listed := map[types.Object]bool{}
	for _, cl := range x.block.Clauses {
		if cl.Kind != "modifies" {
			continue
		}
		for _, m := range cl.Mods {
			if id, ok := m.(*ast.Ident); ok {
				if o := x.lookupLocal(x.entry, id.Name, x.contractCtx(x.entry, nil)); o != nil {
					listed[o] = true
				}
			}
		}
	}
	for o, v := range ret.env {
		if o.Pos() >= x.lit.Pos() && o.Pos() <= x.lit.End() {
			continue // the literal's own parameters and locals
		}
		if _, isVar := o.(*types.Var); !isVar || listed[o] || !o.Pos().IsValid() {
			continue
		}
		e0, had := x.entry.env[o]
		switch {
		case !had:
			x.oblige(ret, "captured", o.Name()+" is assigned", False, nil)
		case e0.S != v.S:
			x.oblige(ret, "captured", o.Name()+" unchanged", Eq(e0.T, v.T), nil)
		}
	}
}
