package main

import (
	"fmt"
	"go/ast"
	"go/token"
	"go/types"
	"strings"
)

// newUnit prepares the verification of one function (declaration or literal) against block b.
func (e *Engine) newUnit(pi *pkgInfo, b *Block, decl *ast.FuncDecl, lit *ast.FuncLit) *Unit {
	x := &Unit{
		eng: e, u: e.u, pkg: pi.pkg, info: pi.pkg.TypesInfo, block: b,
		name: shortPkg(pi.pkg.PkgPath) + "." + b.Key, decl: decl, lit: lit,
		boxed: map[types.Object]T{}, assumptions: map[string]bool{}, libUsed: map[string]bool{},
		calleesUsed: map[string]bool{}, oblNames: map[string]int{}, atSeen: map[int]int{}, callOrd: map[string]int{},
		unitNames: map[string]Val{}, closureBlocks: map[string]*Block{},
	}
	return x
}

func shortPkg(p string) string {
	return strings.TrimPrefix(p, "github.com/yandex/pandora/")
}

// run symbolically executes the body and generates all obligations.
func (x *Unit) run() {
	defer func() {
		if r := recover(); r != nil {
			x.unsupported = append(x.unsupported, fmt.Sprintf("internal error: %v", r))
			if x.eng.debug {
				panic(r)
			}
		}
	}()
	var body *ast.BlockStmt
	var ftype *ast.FuncType
	if x.lit != nil {
		body, ftype = x.lit.Body, x.lit.Type
		x.sig = x.info.TypeOf(x.lit).(*types.Signature)
	} else {
		body, ftype = x.decl.Body, x.decl.Type
		x.sig = x.info.Defs[x.decl.Name].Type().(*types.Signature)
	}
	_ = ftype
	st := &State{pc: True, env: map[types.Object]Val{}, heap: map[string]T{}, ghost: map[string]Val{}, spec: map[string]Val{}, panicking: False}
	st.epoch = x.newEpoch()
	x.entry = &State{pc: True, env: map[types.Object]Val{}, heap: map[string]T{}, ghost: map[string]Val{}, spec: map[string]Val{}, panicking: False, epoch: st.epoch}
	alloc0 := x.fresh("alloc0", SInt)
	x.fact(Cmp(">=", alloc0, IntLit(0)))
	st.alloc = alloc0
	x.entry.alloc = alloc0
	x.inputs = append(x.inputs, alloc0.S)

	fr := &frame{fnType: x.sig, loopBase: x.block.Key, loopN: new(int)}
	x.fr = fr
	// locals whose address is taken live in the heap
	ast.Inspect(body, func(n ast.Node) bool {
		ue, ok := n.(*ast.UnaryExpr)
		if !ok || ue.Op != token.AND {
			return true
		}
		if id, ok := ast.Unparen(ue.X).(*ast.Ident); ok {
			if o, ok := x.info.Uses[id].(*types.Var); ok && !o.IsField() && o.Parent() != o.Pkg().Scope() {
				if _, done := x.boxed[o]; !done {
					r := x.alloc(st)
					x.boxed[o] = r
				}
			}
		}
		return true
	})
	x.entry.alloc = st.alloc
	// receiver and parameters
	bindParam := func(v *types.Var, isRecv bool) {
		if v == nil {
			return
		}
		val := Val{x.fresh(v.Name(), x.u.SortOf(v.Type())), v.Type()}
		x.inputs = append(x.inputs, val.S)
		x.assume(st, x.typeInv(st, val, 0))
		if isRecv {
			if _, ok := under(v.Type()).(*types.Pointer); ok {
				x.assume(st, Cmp(">", val.T, IntLit(0)))
			}
		}
		if _, boxedVar := x.boxed[v]; boxedVar {
			x.writeVar(st, v, val)
		} else {
			st.env[v] = val
		}
		x.entry.env[v] = val
		if v.Name() != "" && v.Name() != "_" {
			x.unitNames[v.Name()+"0"] = val
		}
	}
	bindParam(x.sig.Recv(), true)
	for i := 0; i < x.sig.Params().Len(); i++ {
		bindParam(x.sig.Params().At(i), false)
	}
	// results
	for i := 0; i < x.sig.Results().Len(); i++ {
		r := x.sig.Results().At(i)
		var o types.Object = r
		if r.Name() == "" || r.Name() == "_" {
			o = types.NewVar(token.NoPos, x.pkg.Types, fmt.Sprintf("$ret%d", i), r.Type())
		}
		fr.results = append(fr.results, o)
		st.env[o] = x.zero(r.Type())
	}
	// ghosts: initialise everything declared so that merges never need lazy lookups
	for _, name := range sortedKeys(x.eng.ghostDecls) {
		x.ghostGet(st, name)
	}
	for k, v := range st.ghost {
		x.entry.ghost[k] = v
	}
	for k, v := range st.heap {
		x.entry.heap[k] = v
	}
	// contract: ghost lets and requires
	c := x.contractCtx(st, nil)
	for _, cl := range x.block.Clauses {
		if cl.Kind == "ghost" {
			v := x.specEval(st, cl.Expr, c)
			st.spec[cl.GhostName] = v
			x.unitNames[cl.GhostName] = v
		}
	}
	for _, cl := range x.block.ClausesOf("requires") {
		x.assume(st, x.specEval(st, cl.Expr, c).T)
	}
	for _, cl := range x.block.ClausesOf("captures") {
		x.assume(st, x.specEval(st, cl.Expr, c).T)
	}
	for _, cl := range x.block.ClausesOf("env") {
		x.assume(st, x.specEval(st, cl.Expr, c).T)
		x.note("environment assumption in " + x.name + ": " + cl.Text)
	}
	x.entry.pc = st.pc
	x.entry.spec = st.spec
	for k, v := range st.heap {
		x.entry.heap[k] = v
	}
	for k, v := range st.ghost {
		x.entry.ghost[k] = v
	}
	vac := x.oblige(st, "vacuity", "requires-satisfiable", False, nil)
	vac.WantSat = true
	vac.Kind = "canary"

	end := x.execBlock(st.clone(), body.List, newFlow())
	if end != nil {
		fr.returns = append(fr.returns, end)
	}
	ret, pan := x.finishFrame(fr)

	if ret != nil {
		can := x.oblige(ret, "canary", "exit-reachable", False, nil)
		can.WantSat = true
		can.Kind = "canary"
		ec := x.contractCtx(ret, fr)
		for _, cl := range x.block.ClausesOf("let") {
			ec.names[cl.GhostName] = x.specEval(ret, cl.Expr, ec)
		}
		for i, cl := range x.block.ClausesOf("ensures") {
			g := x.specEval(ret, cl.Expr, ec)
			x.oblige(ret, "ensures", clauseLabel(cl, i), g.T, nil)
		}
		x.frameCheck(ret, ec)
	} else if len(x.block.ClausesOf("ensures")) > 0 && len(x.unsupported) == 0 {
		// no normal exit at all: contracts about results are vacuous; say so loudly
		x.unsupported = append(x.unsupported, "function has no reachable normal exit")
	}
	if pan != nil {
		pc := x.contractCtx(pan, fr)
		mp := x.block.ClausesOf("may_panic")
		var allowed []T
		for _, cl := range mp {
			allowed = append(allowed, x.specEval(x.entry, cl.Expr, x.contractCtx(x.entry, nil)).T)
		}
		x.oblige(pan, "nopanic", "panic-free", Or(allowed...), nil)
		for i, cl := range x.block.ClausesOf("panics_ensures") {
			g := x.specEval(pan, cl.Expr, pc)
			x.oblige(pan, "panics_ensures", clauseLabel(cl, i), g.T, nil)
		}
	}
	// every at-clause must have matched a site
	for i, cl := range x.block.Clauses {
		if cl.Kind == "at" && x.atSeen[i] == 0 {
			x.unsupported = append(x.unsupported, fmt.Sprintf("at-clause matched no site: at %s %s", cl.AtKind, cl.AtName))
		}
	}
}

// contractCtx: naming environment of the unit's own contract (requires at entry, ensures at exit).
func (x *Unit) contractCtx(st *State, fr *frame) *specCtx {
	c := &specCtx{names: map[string]Val{}, old: x.entry, pkg: x.pkg.Types, what: x.block.Key}
	for k, v := range x.unitNames {
		c.names[k] = v
	}
	bind := func(v *types.Var) {
		if v == nil || v.Name() == "" || v.Name() == "_" {
			return
		}
		c.names[v.Name()] = x.readVar(st, v)
	}
	bind(x.sig.Recv())
	for i := 0; i < x.sig.Params().Len(); i++ {
		bind(x.sig.Params().At(i))
	}
	if fr != nil {
		for i, o := range fr.results {
			v := x.readVar(st, o)
			c.names[fmt.Sprintf("result%d", i)] = v
			if i == 0 {
				c.names["result"] = v
			}
			if n := x.sig.Results().At(i).Name(); n != "" && n != "_" {
				c.names[n] = v
			}
		}
	}
	// captured variables of the enclosing function (literal units)
	if x.lit != nil {
		c.scope = x.pkg.Types.Scope().Innermost(x.lit.Body.Lbrace + 1)
		c.pos = x.lit.Body.Lbrace + 1
	} else if x.decl != nil && x.decl.Body != nil {
		c.scope = x.pkg.Types.Scope().Innermost(x.decl.Body.Lbrace + 1)
		c.pos = x.decl.Body.Lbrace + 1
	}
	return c
}

// frameCheck: everything outside the modifies clauses is unchanged at exit (pre-existing objects only).
func (x *Unit) frameCheck(ret *State, ec *specCtx) {
	hasMod := false
	for _, cl := range x.block.Clauses {
		if cl.Kind == "modifies" {
			hasMod = true
		}
	}
	if !hasMod {
		return
	}
	// expected = entry state with the declared locations overwritten by their exit values
	exp := x.entry.clone()
	all := false
	for _, cl := range x.block.Clauses {
		if cl.Kind != "modifies" {
			continue
		}
		for _, m := range cl.Mods {
			if id, ok := m.(*ast.Ident); ok && id.Name == "*" {
				all = true
				continue
			}
			c0 := x.contractCtx(x.entry, nil)
			lv := x.specLV(x.entry, m, c0)
			if lv == nil {
				continue
			}
			x.writeLV(exp, lv, x.readLV(ret, lv))
		}
	}
	if all {
		return
	}
	if ret.epoch != x.entry.epoch {
		x.oblige(ret, "frame", "heap", False, nil).HeapNote = "a callee with 'modifies *' was used; the frame cannot be established"
		return
	}
	for _, k := range sortedKeys(ret.heap) {
		if strings.HasPrefix(k, "atomic:") && false {
			continue
		}
		h := ret.heap[k]
		want, ok := exp.heap[k]
		if !ok {
			want = x.epochLookup(x.entry.epoch, k, h.Sort)
		}
		if want.S == h.S {
			continue
		}
		r := x.fresh("frameref", SInt)
		goal := Imp(And(Cmp(">", r, IntLit(0)), Cmp("<=", x.proot(r), x.entry.alloc)), Eq(Select(h, r), Select(want, r)))
		x.oblige(ret, "frame", k, goal, nil)
	}
	for _, k := range sortedKeys(ret.ghost) {
		g := ret.ghost[k]
		if k == "now" || k == "ev_spawn" || strings.HasPrefix(k, "res:") || strings.HasPrefix(k, "let:") {
			continue
		}
		want, ok := exp.ghost[k]
		if !ok {
			want, ok = x.entry.ghost[k]
			if !ok {
				continue
			}
		}
		if want.S == g.S {
			continue
		}
		if _, isMap := x.u.mapKV[g.Sort]; isMap {
			kq := x.fresh("framekey", x.u.mapKV[g.Sort][0])
			x.oblige(ret, "frame", "ghost "+k, Eq(Select(x.u.MapVal(g.T), kq), Select(x.u.MapVal(want.T), kq)), nil)
		} else {
			x.oblige(ret, "frame", "ghost "+k, Eq(g.T, want.T), nil)
		}
	}
}
