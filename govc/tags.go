package main

import (
	"fmt"
	"go/token"
	"go/types"
	"reflect"
	"strings"
)

// runStructTags checks the `tag Field key item` clauses of a struct block against the struct tags in the source:
// the validation and naming constraints that constructors' preconditions rely on are part of the checked text.
// The obligations are decided syntactically (no solver): Goal is the literal true or false.
func (e *Engine) runStructTags(b *Block) *Unit {
	x := &Unit{
		eng: e, u: e.u, block: b, name: b.PkgPath[strings.Index(b.PkgPath, "/pandora/")+len("/pandora/"):] + "." + b.Key,
		boxed: map[types.Object]T{}, assumptions: map[string]bool{}, libUsed: map[string]bool{},
		calleesUsed: map[string]bool{}, oblNames: map[string]int{}, atSeen: map[int]int{}, callOrd: map[string]int{},
		unitNames: map[string]Val{}, closureBlocks: map[string]*Block{},
	}
	for _, pi := range e.pkgs {
		if pi.pkg.PkgPath == b.PkgPath {
			x.pkg = pi.pkg
			x.info = pi.pkg.TypesInfo
		}
	}
	st := &State{pc: True, env: map[types.Object]Val{}, heap: map[string]T{}, ghost: map[string]Val{}, spec: map[string]Val{}, panicking: False}
	st.epoch = x.newEpoch()
	st.alloc = IntLit(0)
	x.entry = st.clone()
	x.fr = &frame{loopBase: b.Key, loopN: new(int)}
	var stt *types.Struct
	if pkg := e.typesPkg(b.PkgPath); pkg != nil {
		if o := pkg.Scope().Lookup(b.Key); o != nil {
			stt, _ = o.Type().Underlying().(*types.Struct)
		}
	}
	if stt == nil {
		x.specErrors = append(x.specErrors, fmt.Sprintf("struct %s: no such struct type in %s", b.Key, b.PkgPath))
		return x
	}
	for _, cl := range b.Clauses {
		if cl.Kind == "decodes_as" {
			x.decodesAs(st, b, stt, cl)
			continue
		}
		if cl.Kind != "tag" {
			x.specErrors = append(x.specErrors, fmt.Sprintf("struct %s: only tag clauses are allowed", b.Key))
			continue
		}
		field, key, item := cl.GhostName, cl.AtKind, cl.AtName
		ok := false
		found := false
		var fieldVar *types.Var
		for i := 0; i < stt.NumFields(); i++ {
			if stt.Field(i).Name() != field {
				continue
			}
			found = true
			fieldVar = stt.Field(i)
			val := reflect.StructTag(stt.Tag(i)).Get(key)
			if key == "type" {
				// pseudo key: the declared type of the field, as written relative to its package
				ok = types.TypeString(stt.Field(i).Type(), types.RelativeTo(stt.Field(i).Pkg())) == item
				break
			}
			if strings.HasPrefix(item, "=") {
				ok = val == item[1:]
				break
			}
			for _, part := range strings.Split(val, ",") {
				if strings.TrimSpace(part) == item {
					ok = true
				}
			}
		}
		if !found {
			x.specErrors = append(x.specErrors, fmt.Sprintf("struct %s: no field %s", b.Key, field))
			continue
		}
		goal := False
		if ok {
			goal = True
		}
		o := x.oblige(st, "tag", fmt.Sprintf("%s %s:%s", field, key, item), goal, nil)
		if x.pkg != nil && fieldVar != nil && fieldVar.Pos().IsValid() {
			o.Pos = x.pkg.Fset.Position(fieldVar.Pos())
		}
	}
	return x
}

// decodesAs: the struct is marshalled to YAML and the YAML is decoded (mapstructure, tag "config", case-insensitive field
// names) into Target (or, for a union, into one of Target|Target2|...). Every field must arrive: its YAML key (yaml tag
// name, else the lower-cased field name) must be the decode key of a field of a target; every exported field of every
// target must be reachable from a field of this struct; and an HCL attribute (not a block, not a label) must carry the
// same name in both syntaxes.
func (x *Unit) decodesAs(st *State, b *Block, stt *types.Struct, cl Clause) {
	except := map[string]bool{}
	for _, f := range strings.Split(cl.GhostName, ",") {
		if f != "" {
			except[f] = true
		}
	}
	keys := map[string]bool{}
	type tfield struct {
		owner, name, key string
		pos              token.Pos
	}
	var tfields []tfield
	for _, tn := range strings.Split(cl.AtName, "|") {
		var target *types.Struct
		if pkg := x.eng.typesPkg(b.PkgPath); pkg != nil {
			scope, name := pkg.Scope(), tn
			if i := strings.LastIndex(name, "."); i >= 0 {
				// a type of an imported package: "import/path.Type"
				scope = nil
				if ip := x.eng.typesPkg(name[:i]); ip != nil {
					scope = ip.Scope()
				}
				name = name[i+1:]
			}
			if scope != nil {
				if o := scope.Lookup(name); o != nil {
					target, _ = o.Type().Underlying().(*types.Struct)
				}
			}
		}
		if target == nil {
			x.specErrors = append(x.specErrors, fmt.Sprintf("struct %s: decodes_as: no struct type %s", b.Key, tn))
			return
		}
		for j := 0; j < target.NumFields(); j++ {
			g := target.Field(j)
			if !g.Exported() {
				continue
			}
			k := strings.Split(reflect.StructTag(target.Tag(j)).Get("config"), ",")[0]
			if k == "" {
				k = g.Name()
			}
			keys[strings.ToLower(k)] = true
			tfields = append(tfields, tfield{tn[strings.LastIndex(tn, ".")+1:], g.Name(), strings.ToLower(k), g.Pos()})
		}
	}
	have := map[string]bool{}
	for i := 0; i < stt.NumFields(); i++ {
		f := stt.Field(i)
		tag := reflect.StructTag(stt.Tag(i))
		yk := strings.Split(tag.Get("yaml"), ",")[0]
		if yk == "" {
			yk = strings.ToLower(f.Name())
		}
		have[strings.ToLower(yk)] = true
		if except[f.Name()] {
			continue
		}
		goal := False
		if keys[strings.ToLower(yk)] {
			goal = True
		}
		o := x.oblige(st, "tag", fmt.Sprintf("%s yaml key %s is decoded by %s", f.Name(), yk, cl.AtName), goal, nil)
		if x.pkg != nil && f.Pos().IsValid() {
			o.Pos = x.pkg.Fset.Position(f.Pos())
		}
		hp := strings.Split(tag.Get("hcl"), ",")
		if len(hp) == 1 && hp[0] != "" {
			goal = False
			if hp[0] == yk {
				goal = True
			}
			o := x.oblige(st, "tag", fmt.Sprintf("%s attribute has the same name in HCL and YAML", f.Name()), goal, nil)
			if x.pkg != nil && f.Pos().IsValid() {
				o.Pos = x.pkg.Fset.Position(f.Pos())
			}
		}
	}
	for _, tf := range tfields {
		if except[tf.owner+"."+tf.name] {
			continue
		}
		goal := False
		if have[tf.key] {
			goal = True
		}
		o := x.oblige(st, "tag", fmt.Sprintf("%s.%s can be written in HCL", tf.owner, tf.name), goal, nil)
		if x.pkg != nil && tf.pos.IsValid() {
			o.Pos = x.pkg.Fset.Position(tf.pos)
		}
	}
}
