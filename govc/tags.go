package main

import (
	"fmt"
	"go/types"
	"reflect"
	"strings"
)

// runStructTags checks the `tag Field key item` clauses of a struct block against the struct tags in the source:
// the validation and naming constraints that constructors' preconditions rely on are part of the checked text.
// The obligations are decided syntactically (no solver): Goal is the literal true or false.
func (e *Engine) runStructTags(b *Block) *Unit {
	x := &Unit{
		eng: e, u: e.u, block: b, name: b.PkgPath[strings.Index(b.PkgPath, "/pandora/")+len("/pandora/"):] + "." + b.Key,
		boxed: map[types.Object]T{}, assumptions: map[string]bool{}, libUsed: map[string]bool{},
		calleesUsed: map[string]bool{}, oblNames: map[string]int{}, atSeen: map[int]int{}, callOrd: map[string]int{},
		unitNames: map[string]Val{}, closureBlocks: map[string]*Block{},
	}
	for _, pi := range e.pkgs {
		if pi.pkg.PkgPath == b.PkgPath {
			x.pkg = pi.pkg
			x.info = pi.pkg.TypesInfo
		}
	}
	st := &State{pc: True, env: map[types.Object]Val{}, heap: map[string]T{}, ghost: map[string]Val{}, spec: map[string]Val{}, panicking: False}
	st.epoch = x.newEpoch()
	st.alloc = IntLit(0)
	x.entry = st.clone()
	x.fr = &frame{loopBase: b.Key, loopN: new(int)}
	var stt *types.Struct
	if pkg := e.typesPkg(b.PkgPath); pkg != nil {
		if o := pkg.Scope().Lookup(b.Key); o != nil {
			stt, _ = o.Type().Underlying().(*types.Struct)
		}
	}
	if stt == nil {
		x.specErrors = append(x.specErrors, fmt.Sprintf("struct %s: no such struct type in %s", b.Key, b.PkgPath))
		return x
	}
	for _, cl := range b.Clauses {
		if cl.Kind != "tag" {
			x.specErrors = append(x.specErrors, fmt.Sprintf("struct %s: only tag clauses are allowed", b.Key))
			continue
		}
		field, key, item := cl.GhostName, cl.AtKind, cl.AtName
		ok := false
		found := false
		var fieldVar *types.Var
		for i := 0; i < stt.NumFields(); i++ {
			if stt.Field(i).Name() != field {
				continue
			}
			found = true
			fieldVar = stt.Field(i)
			val := reflect.StructTag(stt.Tag(i)).Get(key)
			if strings.HasPrefix(item, "=") {
				ok = val == item[1:]
				break
			}
			for _, part := range strings.Split(val, ",") {
				if strings.TrimSpace(part) == item {
					ok = true
				}
			}
		}
		if !found {
			x.specErrors = append(x.specErrors, fmt.Sprintf("struct %s: no field %s", b.Key, field))
			continue
		}
		goal := False
		if ok {
			goal = True
		}
		o := x.oblige(st, "tag", fmt.Sprintf("%s %s:%s", field, key, item), goal, nil)
		if x.pkg != nil && fieldVar != nil && fieldVar.Pos().IsValid() {
			o.Pos = x.pkg.Fset.Position(fieldVar.Pos())
		}
	}
	return x
}
