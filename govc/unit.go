package main

import (
	"fmt"
	"go/ast"
	"go/token"
	"go/types"
	"sort"
	"strings"

	"golang.org/x/tools/go/packages"
)

// Val is a symbolic Go value.
type Val struct {
	T
	Typ types.Type // may be nil for spec-only values
}

type deferEntry struct {
	guard T
	call  *ast.CallExpr
	// evaluated at defer time
	fnLit   *ast.FuncLit
	args    []Val
	recv    *Val
	callee  types.Object
	funVal  *Val
	builtin string      // deferred call of a builtin (close)
	orig    *deferEntry // the entry created by the defer statement (copies made at merges point back to it)
}

// State is one symbolic path (with merged sub-paths).
type State struct {
	pc        T
	env       map[types.Object]Val
	heap      map[string]T
	ghost     map[string]Val
	defers    []*deferEntry
	alloc     T
	panicking T
	spec      map[string]Val // ghost lets of the current contract scope
	epoch     *epoch
}

// epoch identifies the version of heap maps that a state has not touched yet.
type epoch struct {
	id   int
	a, b *epoch
	sel  T
	memo map[string]T
}

func (s *State) clone() *State {
	n := &State{pc: s.pc, alloc: s.alloc, panicking: s.panicking, epoch: s.epoch}
	n.env = make(map[types.Object]Val, len(s.env))
	for k, v := range s.env {
		n.env[k] = v
	}
	n.heap = make(map[string]T, len(s.heap))
	for k, v := range s.heap {
		n.heap[k] = v
	}
	n.ghost = make(map[string]Val, len(s.ghost))
	for k, v := range s.ghost {
		n.ghost[k] = v
	}
	n.spec = make(map[string]Val, len(s.spec))
	for k, v := range s.spec {
		n.spec[k] = v
	}
	n.defers = append([]*deferEntry(nil), s.defers...)
	return n
}

// Obligation is one verification condition.
type Obligation struct {
	Name     string
	Kind     string // safety ensures requires invariant ... canary vacuity
	PC       T
	Goal     T
	NConsts  int
	NFacts   int
	Pos      token.Position
	Src      string
	Unit     *Unit
	WantSat  bool // canary: must be satisfiable
	Result   *SolveResult
	Claimed  bool
	Inputs   []string // names of input constants for model projection
	HeapNote string
	Replay   *replayResult
	LibPre   bool
}

type loopSpec struct {
	invs  []Clause
	decs  []Clause
	steps []Clause
}

type frame struct {
	fnType   *types.Signature
	results  []types.Object // synthetic or named result vars
	returns  []*State
	panics   []*State
	parent   *frame
	lit      *ast.FuncLit
	loopBase string // block key used for loop lookup
	loopN    *int
	deferLo  int // index in st.defers where this frame's defers start
}

// Unit verifies one function body against its contract block.
type Unit struct {
	inlining map[*types.Func]bool // helpers being executed in place (recursion guard)
	renameBack     map[string]string // current name of a renamed variable -> the name the contracts use
	renameBackDone bool
	shareLoops     bool // the next inlined body continues the current frame's loop numbering
	inlineSites    []inlineSite // calls being executed in place, outermost first
	eng   *Engine
	u     *Universe
	pkg   *packages.Package
	info  *types.Info
	block *Block
	lockRel0    Val  // entry value of the lockReleased ghost
	lockRelFact bool // its all-false fact has been stated (only units that lock need it)
	name  string // display name: pkgpath.Key
	decl  *ast.FuncDecl
	lit   *ast.FuncLit
	outer *ast.FuncDecl
	sig   *types.Signature
	recv  *types.Var

	consts        []string
	facts         []string
	obls          []*Obligation
	nfresh        int
	entry         *State
	fr            *frame
	boxed         map[types.Object]T // locals whose address is taken -> ref
	assumptions   map[string]bool
	libUsed       map[string]bool
	calleesUsed   map[string]bool
	unsupported   []string
	oblNames      map[string]int
	inputs        []string
	atSeen        map[int]int // clause index -> matches
	callOrd       map[string]int
	inSpec        int
	skolems       int
	nepoch        int
	dry           int
	binders       int
	inlineDepth   int
	selectChoices []string
	specErrors    []string
	unitNames     map[string]Val
	closureBlocks map[string]*Block
	litScope      *ast.FuncLit
	letWitness    int
	inDefer       int
	witMemo       map[string]Val
	iterState     *State
	entryFacts    map[string]bool
	witnessHint   types.Type
	witnessTyp    types.Type
	curPos        token.Pos
	errGlobals    []T
}

func (x *Unit) fresh(prefix string, srt Sort) T {
	x.nfresh++
	name := fmt.Sprintf("%s!%d", sanitizeName(prefix), x.nfresh)
	x.consts = append(x.consts, fmt.Sprintf("(declare-const %s %s)", name, srt))
	return T{name, srt}
}

func sanitizeName(s string) string {
	var b strings.Builder
	for _, c := range s {
		if c >= 'a' && c <= 'z' || c >= 'A' && c <= 'Z' || c >= '0' && c <= '9' || c == '_' || c == '.' {
			b.WriteRune(c)
		} else {
			b.WriteByte('_')
		}
	}
	if b.Len() == 0 {
		return "v"
	}
	return b.String()
}

// define introduces a named constant equal to t (keeps terms small).
func (x *Unit) define(prefix string, t T) T {
	if len(t.S) < 40 || x.binders > 0 {
		return t
	}
	c := x.fresh(prefix, t.Sort)
	x.facts = append(x.facts, fmt.Sprintf("(= %s %s)", c.S, t.S))
	return c
}

func (x *Unit) fact(t T) {
	if t.IsTrue() {
		return
	}
	x.facts = append(x.facts, t.S)
}

func (x *Unit) assume(st *State, c T) {
	if c.IsTrue() {
		return
	}
	st.pc = x.define("pc", And(st.pc, c))
}

func (x *Unit) note(a string) { x.assumptions[a] = true }

func (x *Unit) unsupportedf(n ast.Node, format string, a ...any) {
	pos := ""
	if n != nil {
		pos = x.pkg.Fset.Position(n.Pos()).String() + ": "
	}
	x.unsupported = append(x.unsupported, pos+fmt.Sprintf(format, a...))
}

func (x *Unit) srcOf(n ast.Node) string {
	if n == nil {
		return ""
	}
	var b strings.Builder
	if e, ok := n.(ast.Expr); ok {
		return x.oldNames(types.ExprString(e))
	}
	_ = b
	return fmt.Sprintf("%T", n)
}

// oldNames rewrites the text of an expression of the function under verification so that variables renamed since the
// contracts were written appear under the names the contracts use (site keys of at-clauses, result_of and calls, and the
// names of obligations are such texts). Field and method selectors are left alone.
func (x *Unit) oldNames(text string) string {
	if !x.renameBackDone {
		x.renameBackDone = true
		x.renameBack = x.computeRenameBack()
	}
	if len(x.renameBack) == 0 {
		return text
	}
	var b strings.Builder
	isId := func(c byte) bool { return c == '_' || c >= '0' && c <= '9' || c >= 'a' && c <= 'z' || c >= 'A' && c <= 'Z' || c >= 0x80 }
	for i := 0; i < len(text); {
		c := text[i]
		if isId(c) && !(c >= '0' && c <= '9') {
			j := i
			for j < len(text) && isId(text[j]) {
				j++
			}
			word := text[i:j]
			if old, ok := x.renameBack[word]; ok && (i == 0 || text[i-1] != '.') {
				b.WriteString(old)
			} else {
				b.WriteString(word)
			}
			i = j
			continue
		}
		b.WriteByte(c)
		i++
	}
	return b.String()
}

// oblige records an obligation pc => goal.
func (x *Unit) oblige(st *State, kind, key string, goal T, n ast.Node) *Obligation {
	if goal.IsTrue() {
		// still count trivially true obligations? they are discharged syntactically; record for the count.
	}
	base := fmt.Sprintf("%s:%s[%s]", x.name, kind, key)
	x.oblNames[base]++
	name := base
	if c := x.oblNames[base]; c > 1 {
		name = fmt.Sprintf("%s#%d", base, c)
	}
	o := &Obligation{Name: name, Kind: kind, PC: st.pc, Goal: goal, NConsts: len(x.consts), NFacts: len(x.facts), Unit: x}
	if n != nil && n.Pos().IsValid() {
		o.Pos = x.pkg.Fset.Position(n.Pos())
	} else if x.curPos.IsValid() {
		o.Pos = x.pkg.Fset.Position(x.curPos)
	}
	o.Src = key
	x.obls = append(x.obls, o)
	return o
}

// merge joins two states that split on cond (a took cond, b took !cond).
func (x *Unit) merge(a, b *State) *State {
	if a == nil {
		return b
	}
	if b == nil {
		return a
	}
	if a.pc.IsFalse() {
		return b
	}
	if b.pc.IsFalse() {
		return a
	}
	sel := a.pc // value selector: if a's pc holds take a's value
	n := &State{}
	n.pc = x.define("pc", Or(a.pc, b.pc))
	n.env = make(map[types.Object]Val, len(a.env))
	for k, va := range a.env {
		vb, ok := b.env[k]
		if !ok {
			// declared on one path only: any later use (a deferred call, the rest of that path) is on that path
			n.env[k] = va
			continue
		}
		if va.S == vb.S {
			n.env[k] = va
		} else {
			n.env[k] = Val{x.define(k.Name(), Ite(sel, va.T, vb.T)), va.Typ}
		}
	}
	for k, vb := range b.env {
		if _, ok := a.env[k]; !ok {
			n.env[k] = vb
		}
	}
	n.heap = make(map[string]T, len(a.heap))
	keys := map[string]bool{}
	for k := range a.heap {
		keys[k] = true
	}
	for k := range b.heap {
		keys[k] = true
	}
	for k := range keys {
		ha, oka := a.heap[k]
		hb, okb := b.heap[k]
		if !oka {
			ha = x.epochLookup(a.epoch, k, hb.Sort)
		}
		if !okb {
			hb = x.epochLookup(b.epoch, k, ha.Sort)
		}
		if ha.S == hb.S {
			n.heap[k] = ha
		} else {
			n.heap[k] = x.define("H_"+k, Ite(sel, ha, hb))
		}
	}
	if a.epoch == b.epoch {
		n.epoch = a.epoch
	} else {
		x.nepoch++
		n.epoch = &epoch{id: x.nepoch, a: a.epoch, b: b.epoch, sel: sel, memo: map[string]T{}}
	}
	n.ghost = make(map[string]Val, len(a.ghost))
	gk := map[string]bool{}
	for k := range a.ghost {
		gk[k] = true
	}
	for k := range b.ghost {
		gk[k] = true
	}
	for k := range gk {
		ga, oka := a.ghost[k]
		gb, okb := b.ghost[k]
		if !oka {
			ga = x.ghostInit(k, gb)
		}
		if !okb {
			gb = x.ghostInit(k, ga)
		}
		if ga.S == gb.S {
			n.ghost[k] = ga
		} else {
			n.ghost[k] = Val{x.define("G_"+k, Ite(sel, ga.T, gb.T)), ga.Typ}
		}
	}
	n.spec = make(map[string]Val)
	for k, va := range a.spec {
		if vb, ok := b.spec[k]; ok && va.S == vb.S {
			n.spec[k] = va
		}
	}
	if a.alloc.S == b.alloc.S {
		n.alloc = a.alloc
	} else {
		n.alloc = x.define("alloc", Ite(sel, a.alloc, b.alloc))
	}
	if a.panicking.S == b.panicking.S {
		n.panicking = a.panicking
	} else {
		n.panicking = x.define("panicking", Ite(sel, a.panicking, b.panicking))
	}
	// defers: entries of the same defer statement execution are merged (guards combined), the rest is guarded by its path
	origOf := func(d *deferEntry) *deferEntry {
		if d.orig != nil {
			return d.orig
		}
		return d
	}
	i := 0
	for i < len(a.defers) && i < len(b.defers) && origOf(a.defers[i]) == origOf(b.defers[i]) {
		da, db := a.defers[i], b.defers[i]
		if da == db {
			n.defers = append(n.defers, da)
		} else {
			c := *da
			c.orig = origOf(da)
			if da.guard.IsTrue() && db.guard.IsTrue() {
				c.guard = True
			} else {
				c.guard = x.define("dguard", Or(And(da.guard, a.pc), And(db.guard, b.pc)))
			}
			n.defers = append(n.defers, &c)
		}
		i++
	}
	for _, d := range a.defers[i:] {
		c := *d
		c.orig = origOf(d)
		c.guard = And(d.guard, a.pc)
		n.defers = append(n.defers, &c)
	}
	for _, d := range b.defers[i:] {
		c := *d
		c.orig = origOf(d)
		c.guard = And(d.guard, b.pc)
		n.defers = append(n.defers, &c)
	}
	return n
}

func (x *Unit) mergeAll(sts []*State) *State {
	var out *State
	for _, s := range sts {
		if s == nil {
			continue
		}
		out = x.merge(out, s)
	}
	return out
}

// epochLookup returns the version of heap map key that belongs to epoch e, creating it on first use.
func (x *Unit) epochLookup(e *epoch, key string, srt Sort) T {
	if h, ok := e.memo[key]; ok {
		return h
	}
	var h T
	if e.a != nil {
		h = x.define("H_"+key, Ite(e.sel, x.epochLookup(e.a, key, srt), x.epochLookup(e.b, key, srt)))
	} else {
		h = x.fresh(fmt.Sprintf("H%d_%s", e.id, key), srt)
	}
	e.memo[key] = h
	return h
}

func (x *Unit) newEpoch() *epoch {
	x.nepoch++
	return &epoch{id: x.nepoch, memo: map[string]T{}}
}

func (x *Unit) ghostInit(key string, like Val) Val {
	if g, ok := x.entry.ghost[key]; ok {
		return g
	}
	g := Val{x.fresh("G0_"+key, like.Sort), like.Typ}
	x.entry.ghost[key] = g
	x.inputs = append(x.inputs, g.S)
	return g
}

func (x *Unit) heapGet(st *State, key string, srt Sort) T {
	if h, ok := st.heap[key]; ok {
		return h
	}
	h := x.epochLookup(st.epoch, key, srt)
	st.heap[key] = h
	return h
}

func sortedKeys[V any](m map[string]V) []string {
	out := []string{}
	for k := range m {
		out = append(out, k)
	}
	sort.Strings(out)
	return out
}
