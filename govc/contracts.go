package main

import (
	"fmt"
	"go/ast"
	"go/parser"
	"regexp"
	"strconv"
	"strings"
)

// Clause is one line (possibly continued) of a contract block.
type Clause struct {
	Kind  string // requires ensures panics_ensures may_panic modifies invariant decreases ghost at assume env lemma
	Label string
	Expr  ast.Expr
	Text  string
	Loop  int
	// at-clauses
	AtKind   string // call, send, index
	AtName   string // callee text
	AtOrd    int    // -1 = every matching site
	AtAction string // assert | assume
	// modifies
	Mods []ast.Expr
	// ghost
	GhostName string
	Line      int
}

// Block is a contract block bound to a function, interface method, external function or func-typed field.
type Block struct {
	Kind    string // func iface ext fieldfunc lemma
	Key     string // normalised key text after the kind word
	Clauses []Clause
	Props   []string
	Flags   map[string]bool // trusted inline pure
	File    string
	Line    int
	Text    []string // raw lines (for hashing / evidence)
	PkgPath string   // package of the contract file ("" for lib files)
}

type SpecFunc struct {
	Name    string
	Params  []string
	PTypes  []string
	RType   string
	Body    ast.Expr // nil = uninterpreted
	Text    string
	PkgPath string
	Line    int
}

type Axiom struct {
	Name    string
	Expr    ast.Expr
	Text    string
	PkgPath string
	Props   []string
}

type ContractFile struct {
	Path    string
	PkgPath string
	Blocks  []*Block
	Specs   []*SpecFunc
	Axioms  []*Axiom
	Events  []string
	Ghosts  []string    // file-level ghost globals: "name type"
	Guards  [][3]string // guarded_by T.field mutexfield
	Uses    [][2]string // use name "import/path": which import a package name means when two imports share it
	Relev   [][]string  // relevance <package path suffix> P1 P2 ...: every block of the packages under that path also counts for these properties
}

var clauseWords = map[string]bool{
	"func": true, "iface": true, "ext": true, "fieldfunc": true, "lemma": true, "struct": true, "tag": true, "decodes_as": true,
	"requires": true, "ensures": true, "panics": true, "may_panic": true, "modifies": true, "assigns": true,
	"loop": true, "ghost": true, "at": true, "trusted": true, "inline": true, "pure": true, "props": true,
	"spec": true, "axiom": true, "event": true, "env": true, "assume": true, "decreases": true, "global": true,
	"havoc": true, "nopanic": true, "fresh": true, "nilsafe": true, "guarded_by": true, "use": true, "relevance": true, "captures": true, "var": true, "import": true, "let": true,
}

var labelRe = regexp.MustCompile(`^\[([A-Za-z0-9_.<>=+\-/ ]+)\]\s*`)

// stripComment removes a trailing // comment that is not inside a string or rune literal.
func stripComment(s string) string {
	inStr, inRune, inRaw := false, false, false
	for i := 0; i < len(s); i++ {
		c := s[i]
		switch {
		case inStr:
			if c == '\\' {
				i++
			} else if c == '"' {
				inStr = false
			}
		case inRune:
			if c == '\\' {
				i++
			} else if c == '\'' {
				inRune = false
			}
		case inRaw:
			if c == '`' {
				inRaw = false
			}
		case c == '"':
			inStr = true
		case c == '\'':
			inRune = true
		case c == '`':
			inRaw = true
		case c == '/' && i+1 < len(s) && s[i+1] == '/':
			return strings.TrimSpace(s[:i])
		}
	}
	return strings.TrimSpace(s)
}

// ParseContractText parses the //@ lines of a contract file.
func ParseContractText(path, pkgPath, src string) (*ContractFile, error) {
	cf := &ContractFile{Path: path, PkgPath: pkgPath}
	type rawLine struct {
		text string
		line int
	}
	var lines []rawLine
	for i, l := range strings.Split(src, "\n") {
		t := strings.TrimSpace(l)
		if !strings.HasPrefix(t, "//@") {
			continue
		}
		t = stripComment(strings.TrimPrefix(t, "//@"))
		if t == "" {
			continue
		}
		first := strings.Fields(t)[0]
		if !clauseWords[first] && len(lines) > 0 {
			lines[len(lines)-1].text += " " + t
			continue
		}
		lines = append(lines, rawLine{t, i + 1})
	}
	var cur *Block
	var fileProps []string
	for _, rl := range lines {
		t := rl.text
		word := strings.Fields(t)[0]
		rest := strings.TrimSpace(strings.TrimPrefix(t, word))
		errf := func(format string, a ...any) error {
			return fmt.Errorf("%s:%d: %s", path, rl.line, fmt.Sprintf(format, a...))
		}
		switch word {
		case "func", "iface", "ext", "fieldfunc", "lemma", "struct":
			cur = &Block{Kind: word, Key: normKey(rest), File: path, Line: rl.line, Flags: map[string]bool{}, PkgPath: pkgPath}
			cur.Props = append(cur.Props, fileProps...)
			cf.Blocks = append(cf.Blocks, cur)
			cur.Text = append(cur.Text, t)
			continue
		case "spec":
			sf, err := parseSpecFunc(rest)
			if err != nil {
				return nil, errf("%v", err)
			}
			sf.PkgPath = pkgPath
			sf.Line = rl.line
			cf.Specs = append(cf.Specs, sf)
			continue
		case "axiom":
			i := strings.Index(rest, ":")
			if i < 0 {
				return nil, errf("axiom needs a name")
			}
			e, err := parser.ParseExpr(rest[i+1:])
			if err != nil {
				return nil, errf("axiom: %v", err)
			}
			cf.Axioms = append(cf.Axioms, &Axiom{Name: strings.TrimSpace(rest[:i]), Expr: e, Text: rest, PkgPath: pkgPath})
			continue
		case "event":
			cf.Events = append(cf.Events, strings.Fields(rest)...)
			continue
		case "global":
			cf.Ghosts = append(cf.Ghosts, rest)
			continue
		case "use":
			f := strings.Fields(rest)
			if len(f) != 2 {
				return nil, errf("use needs 'name \"import/path\"'")
			}
			cf.Uses = append(cf.Uses, [2]string{f[0], strings.Trim(f[1], "\"")})
			continue
		case "relevance":
			f := strings.Fields(rest)
			if len(f) < 2 {
				return nil, errf("relevance needs a package path and properties")
			}
			cf.Relev = append(cf.Relev, f)
			continue
		case "guarded_by":
			// guarded_by T.field mutexfield: every access to the field needs the mutex of the same object held
			f := strings.Fields(rest)
			tf := strings.Split(f[0], ".")
			if len(f) != 2 || len(tf) != 2 {
				return nil, errf("guarded_by needs 'Type.field mutexfield'")
			}
			cf.Guards = append(cf.Guards, [3]string{tf[0], tf[1], f[1]})
			continue
		case "props":
			if cur == nil {
				fileProps = append(fileProps, strings.Fields(rest)...)
				continue
			}
		}
		if cur == nil {
			return nil, errf("clause %q outside a block", word)
		}
		cur.Text = append(cur.Text, t)
		cl := Clause{Line: rl.line, Text: rest, AtOrd: -1}
		parseLabeled := func(s string) (string, ast.Expr, error) {
			label := ""
			if m := labelRe.FindStringSubmatch(s); m != nil {
				label = m[1]
				s = s[len(m[0]):]
			}
			e, err := parser.ParseExpr(s)
			return label, e, err
		}
		var err error
		switch word {
		case "props":
			cur.Props = append(cur.Props, strings.Fields(rest)...)
			continue
		case "trusted", "inline", "pure", "nopanic", "fresh", "nilsafe":
			cur.Flags[word] = true
			continue
		case "tag":
			// tag Field key item: the struct tag `key:"..."` of Field lists item (comma separated); item "=v" means the whole value is v
			f := strings.Fields(rest)
			if len(f) != 3 {
				return nil, errf("tag needs 'Field key item'")
			}
			cl.Kind = "tag"
			cl.Text = rest
			cl.GhostName = f[0]
			cl.AtKind = f[1]
			cl.AtName = f[2]
		case "decodes_as":
			// decodes_as Target [except F1,F2]: every field of this struct, marshalled to YAML, is decoded into a field of Target
			f := strings.Fields(rest)
			if len(f) != 1 && !(len(f) == 3 && f[1] == "except") {
				return nil, errf("decodes_as needs 'Target [except F1,F2]'")
			}
			cl.Kind = "decodes_as"
			cl.Text = rest
			cl.AtName = f[0]
			if len(f) == 3 {
				cl.GhostName = f[2]
			}
		case "var":
			// var a, b real
			f := strings.Fields(strings.ReplaceAll(rest, ",", " "))
			if len(f) < 2 {
				return nil, errf("var needs names and a type")
			}
			cl.Kind = "var"
			cl.Text = rest
			cl.AtName = f[len(f)-1]
			cl.GhostName = strings.Join(f[:len(f)-1], " ")
		case "import":
			// import requires|ensures|captures KEY
			f := strings.Fields(rest)
			if len(f) < 2 {
				return nil, errf("import needs a clause kind and a block key")
			}
			cl.Kind = "import"
			cl.AtKind = f[0]
			cl.AtName = normKey(strings.Join(f[1:], " "))
		case "requires", "ensures", "may_panic", "assume", "env", "decreases", "captures":
			cl.Kind = word
			cl.Label, cl.Expr, err = parseLabeled(rest)
		case "panics":
			if !strings.HasPrefix(rest, "ensures") {
				return nil, errf("expected 'panics ensures'")
			}
			cl.Kind = "panics_ensures"
			cl.Label, cl.Expr, err = parseLabeled(strings.TrimSpace(strings.TrimPrefix(rest, "ensures")))
		case "modifies", "assigns", "havoc":
			cl.Kind = "modifies"
			if word == "havoc" {
				cl.Kind = "havoc"
			}
			if rest != "nothing" {
				for _, part := range splitTop(rest) {
					if part == "*" {
						cl.Mods = append(cl.Mods, &ast.Ident{Name: "*"})
						continue
					}
					e, perr := parser.ParseExpr(part)
					if perr != nil {
						return nil, errf("modifies %q: %v", part, perr)
					}
					cl.Mods = append(cl.Mods, e)
				}
			}
		case "loop":
			f := strings.Fields(rest)
			if len(f) < 3 {
				return nil, errf("loop clause too short")
			}
			cl.Loop, err = strconv.Atoi(f[0])
			if err != nil {
				return nil, errf("loop ordinal: %v", err)
			}
			cl.Kind = f[1]
			if cl.Kind != "invariant" && cl.Kind != "decreases" && cl.Kind != "step" {
				return nil, errf("loop clause kind %q", cl.Kind)
			}
			body := strings.TrimSpace(strings.TrimPrefix(strings.TrimSpace(strings.TrimPrefix(rest, f[0])), f[1]))
			cl.Label, cl.Expr, err = parseLabeled(body)
		case "ghost", "let":
			i := strings.Index(rest, "=")
			if i < 0 {
				return nil, errf("ghost needs name = expr")
			}
			cl.Kind = word
			cl.GhostName = strings.TrimSpace(rest[:i])
			cl.Expr, err = parser.ParseExpr(rest[i+1:])
		case "at":
			// at call NAME[#k] assert|assume EXPR
			f := strings.Fields(rest)
			if len(f) < 4 {
				return nil, errf("at clause too short")
			}
			cl.Kind = "at"
			cl.AtKind = f[0]
			name := f[1]
			if i := strings.Index(name, "#"); i >= 0 {
				cl.AtOrd, err = strconv.Atoi(name[i+1:])
				if err != nil {
					return nil, errf("at ordinal: %v", err)
				}
				name = name[:i]
			}
			cl.AtName = name
			cl.AtAction = f[2]
			if cl.AtAction != "assert" && cl.AtAction != "assume" && cl.AtAction != "havoc" {
				return nil, errf("at action %q", cl.AtAction)
			}
			idx := strings.Index(rest, " "+f[2]+" ")
			if cl.AtAction == "havoc" {
				// at call NAME havoc loc, loc: other goroutines may have changed these locations by the time of the call
				for _, part := range splitTop(strings.TrimSpace(rest[idx+len(f[2])+2:])) {
					e, perr := parser.ParseExpr(part)
					if perr != nil {
						return nil, errf("havoc %q: %v", part, perr)
					}
					cl.Mods = append(cl.Mods, e)
				}
				break
			}
			cl.Label, cl.Expr, err = parseLabeled(strings.TrimSpace(rest[idx+len(f[2])+2:]))
		default:
			return nil, errf("unknown clause %q", word)
		}
		if err != nil {
			return nil, errf("%s: %v", word, err)
		}
		cur.Clauses = append(cur.Clauses, cl)
	}
	return cf, nil
}

func splitTop(s string) []string {
	var out []string
	depth := 0
	start := 0
	for i, c := range s {
		switch c {
		case '(', '[':
			depth++
		case ')', ']':
			depth--
		case ',':
			if depth == 0 {
				out = append(out, strings.TrimSpace(s[start:i]))
				start = i + 1
			}
		}
	}
	out = append(out, strings.TrimSpace(s[start:]))
	return out
}

var wsRe = regexp.MustCompile(`\s+`)

// normKey: "(s *T) Name" -> "(*T).Name"; "(T) Name" -> "(T).Name"; "Name" stays.
func normKey(s string) string {
	s = strings.TrimSpace(wsRe.ReplaceAllString(s, " "))
	if strings.HasPrefix(s, "(") {
		i := strings.Index(s, ")")
		if i > 0 {
			recv := strings.Fields(s[1:i])
			typ := recv[len(recv)-1]
			return "(" + typ + ")." + strings.TrimPrefix(strings.TrimSpace(s[i+1:]), ".")
		}
	}
	return s
}

var specRe = regexp.MustCompile(`^func\s+([A-Za-z_][A-Za-z0-9_]*)\s*\(([^)]*)\)\s*([^=]+?)\s*(=\s*(.*))?$`)

func parseSpecFunc(rest string) (*SpecFunc, error) {
	m := specRe.FindStringSubmatch(rest)
	if m == nil {
		return nil, fmt.Errorf("malformed spec func: %s", rest)
	}
	sf := &SpecFunc{Name: m[1], RType: strings.TrimSpace(m[3]), Text: rest}
	if strings.TrimSpace(m[2]) != "" {
		// "a, b int, c real"
		parts := splitTop(m[2])
		var pending []string
		for _, p := range parts {
			f := strings.Fields(p)
			if len(f) == 1 {
				pending = append(pending, f[0])
				continue
			}
			typ := strings.Join(f[1:], " ")
			for _, n := range pending {
				sf.Params = append(sf.Params, n)
				sf.PTypes = append(sf.PTypes, typ)
			}
			pending = nil
			sf.Params = append(sf.Params, f[0])
			sf.PTypes = append(sf.PTypes, typ)
		}
		if len(pending) > 0 {
			return nil, fmt.Errorf("spec func %s: parameters without a type", sf.Name)
		}
	}
	if m[5] != "" {
		e, err := parser.ParseExpr(m[5])
		if err != nil {
			return nil, fmt.Errorf("spec func %s body: %v", sf.Name, err)
		}
		sf.Body = e
	}
	return sf, nil
}

func (b *Block) HasProp(p string) bool {
	for _, q := range b.Props {
		if q == p {
			return true
		}
	}
	return false
}

func (b *Block) ClausesOf(kind string) []Clause {
	var out []Clause
	for _, c := range b.Clauses {
		if c.Kind == kind {
			out = append(out, c)
		}
	}
	return out
}
