package main

import (
	"fmt"
	"go/ast"
	"go/token"
	"go/types"
	"strings"
)

type flow struct {
	breaks map[string][]*State
	conts  map[string][]*State
}

func newFlow() *flow {
	return &flow{breaks: map[string][]*State{}, conts: map[string][]*State{}}
}

func (x *Unit) execBlock(st *State, stmts []ast.Stmt, fl *flow) *State {
	for _, s := range stmts {
		if st == nil {
			return nil
		}
		st = x.execStmt(st, s, fl, "")
	}
	return st
}

func live(st *State) *State {
	if st == nil || st.pc.IsFalse() {
		return nil
	}
	return st
}

func (x *Unit) execStmt(st *State, s ast.Stmt, fl *flow, label string) *State {
	if st == nil {
		return nil
	}
	x.curPos = s.Pos()
	switch s := s.(type) {
	case *ast.EmptyStmt:
		return st
	case *ast.BlockStmt:
		return x.execBlock(st, s.List, fl)
	case *ast.LabeledStmt:
		return x.execStmt(st, s.Stmt, fl, s.Label.Name)
	case *ast.ExprStmt:
		if call, ok := s.X.(*ast.CallExpr); ok {
			if x.isBuiltin(call, "panic") {
				if len(call.Args) == 1 {
					x.eval(st, call.Args[0])
				}
				x.raisePanic(st, "explicit panic", s)
				return nil
			}
			x.evalCall(st, call, 0)
			return live(st)
		}
		x.evalN(st, s.X, 0)
		return live(st)
	case *ast.AssignStmt:
		x.execAssign(st, s)
		return live(st)
	case *ast.IncDecStmt:
		lv := x.lvalue(st, s.X)
		v := x.readLV(st, lv)
		op := "+"
		if s.Tok == token.DEC {
			op = "-"
		}
		x.writeLV(st, lv, Val{Arith(op, v.T, IntLit(1)), v.Typ})
		return st
	case *ast.DeclStmt:
		gd, ok := s.Decl.(*ast.GenDecl)
		if !ok || gd.Tok != token.VAR {
			return st
		}
		for _, sp := range gd.Specs {
			vs := sp.(*ast.ValueSpec)
			if len(vs.Values) == 0 {
				for _, n := range vs.Names {
					if n.Name == "_" {
						continue
					}
					o := x.info.Defs[n]
					x.writeVar(st, o, x.zero(o.Type()))
				}
				continue
			}
			if len(vs.Values) == 1 && len(vs.Names) > 1 {
				vals := x.evalN(st, vs.Values[0], len(vs.Names))
				for i, n := range vs.Names {
					if n.Name == "_" || i >= len(vals) {
						continue
					}
					o := x.info.Defs[n]
					x.writeVar(st, o, x.convert(st, vals[i], o.Type()))
				}
				continue
			}
			for i, n := range vs.Names {
				v := x.eval(st, vs.Values[i])
				if n.Name == "_" {
					continue
				}
				o := x.info.Defs[n]
				x.writeVar(st, o, x.convert(st, v, o.Type()))
			}
		}
		return live(st)
	case *ast.IfStmt:
		if s.Init != nil {
			st = x.execStmt(st, s.Init, fl, "")
			if st == nil {
				return nil
			}
		}
		c := x.eval(st, s.Cond)
		a := st.clone()
		b := st.clone()
		x.assume(a, c.T)
		x.assume(b, Not(c.T))
		var ra, rb *State
		if !c.T.IsFalse() {
			ra = x.execBlock(a, s.Body.List, fl)
		}
		if !c.T.IsTrue() {
			rb = b
			if s.Else != nil {
				rb = x.execStmt(b, s.Else, fl, "")
			}
		}
		return x.merge(live(ra), live(rb))
	case *ast.ReturnStmt:
		x.execReturn(st, s)
		return nil
	case *ast.BranchStmt:
		lab := ""
		if s.Label != nil {
			lab = s.Label.Name
		}
		switch s.Tok {
		case token.BREAK:
			fl.breaks[lab] = append(fl.breaks[lab], st)
		case token.CONTINUE:
			fl.conts[lab] = append(fl.conts[lab], st)
		default:
			x.unsupportedf(s, "branch %s", s.Tok)
		}
		return nil
	case *ast.ForStmt:
		return x.execFor(st, s, fl, label)
	case *ast.RangeStmt:
		return x.execRange(st, s, fl, label)
	case *ast.SwitchStmt:
		return x.execSwitch(st, s, fl, label)
	case *ast.TypeSwitchStmt:
		return x.execTypeSwitch(st, s, fl, label)
	case *ast.SelectStmt:
		return x.execSelect(st, s, fl, label)
	case *ast.DeferStmt:
		x.execDefer(st, s)
		return live(st)
	case *ast.GoStmt:
		x.execGo(st, s)
		return live(st)
	case *ast.SendStmt:
		ch := x.eval(st, s.Chan)
		v := x.eval(st, s.Value)
		x.chanSend(st, ch, v, s)
		return live(st)
	}
	x.unsupportedf(s, "statement %T", s)
	return st
}

func (x *Unit) isBuiltin(call *ast.CallExpr, name string) bool {
	id, ok := ast.Unparen(call.Fun).(*ast.Ident)
	if !ok || id.Name != name {
		return false
	}
	_, isB := x.info.Uses[id].(*types.Builtin)
	return isB
}

func (x *Unit) raisePanic(st *State, why string, n ast.Node) {
	p := st.clone()
	p.panicking = True
	x.fr.panics = append(x.fr.panics, p)
	_ = why
}

func (x *Unit) execAssign(st *State, s *ast.AssignStmt) {
	if s.Tok != token.ASSIGN && s.Tok != token.DEFINE {
		// op=
		lv := x.lvalue(st, s.Lhs[0])
		cur := x.readLV(st, lv)
		rhs := x.eval(st, s.Rhs[0])
		ops := map[token.Token]token.Token{
			token.ADD_ASSIGN: token.ADD, token.SUB_ASSIGN: token.SUB, token.MUL_ASSIGN: token.MUL,
			token.QUO_ASSIGN: token.QUO, token.REM_ASSIGN: token.REM, token.AND_ASSIGN: token.AND,
			token.OR_ASSIGN: token.OR, token.XOR_ASSIGN: token.XOR, token.SHL_ASSIGN: token.SHL,
			token.SHR_ASSIGN: token.SHR, token.AND_NOT_ASSIGN: token.AND_NOT,
		}
		r := x.binop(st, ops[s.Tok], cur, x.convertArith(st, rhs, cur.Typ), cur.Typ, s)
		x.writeLV(st, lv, r)
		return
	}
	var vals []Val
	if len(s.Rhs) == 1 && len(s.Lhs) > 1 {
		vals = x.evalN(st, s.Rhs[0], len(s.Lhs))
		for len(vals) < len(s.Lhs) {
			vals = append(vals, x.freshVal(st, "missing", x.info.TypeOf(s.Lhs[len(vals)])))
		}
	} else {
		for _, r := range s.Rhs {
			vals = append(vals, x.eval(st, r))
		}
	}
	// evaluate locations, then store
	lvs := make([]*LV, len(s.Lhs))
	for i, l := range s.Lhs {
		if s.Tok == token.DEFINE {
			if id, ok := l.(*ast.Ident); ok {
				if id.Name == "_" {
					lvs[i] = &LV{kind: lvBlank}
					continue
				}
				o := x.info.Defs[id]
				if o == nil {
					o = x.info.Uses[id]
				}
				lvs[i] = &LV{kind: lvVar, obj: o, typ: o.Type()}
				continue
			}
		}
		lvs[i] = x.lvalue(st, l)
	}
	for i, lv := range lvs {
		if lv.kind == lvBlank {
			continue
		}
		x.atAssign(st, s, s.Lhs[i], vals[i])
		x.writeLV(st, lv, x.convert(st, vals[i], lv.typ))
	}
}

// atAssign handles "at assign LHS assert|assume EXPR": the clause is evaluated in the state just before the store to the
// location written LHS in the source (`value` names what is stored).
func (x *Unit) atAssign(st *State, node ast.Node, lhs ast.Expr, v Val) {
	var b *Block
	for fr := x.fr; fr != nil && b == nil; fr = fr.parent {
		b = x.eng.blockFor(x.pkg.PkgPath, fr.loopBase)
	}
	if b == nil || b != x.block {
		return
	}
	text := strings.ReplaceAll(x.srcOf(lhs), " ", "")
	for i, cl := range b.Clauses {
		if cl.Kind != "at" || cl.AtKind != "assign" || cl.AtName != text {
			continue
		}
		x.atSeen[i]++
		c := x.bodySpecCtx(st, node)
		c.names["value"] = v
		g := x.specEval(st, cl.Expr, c)
		if cl.AtAction == "assert" {
			x.oblige(st, "at", "assign "+cl.AtName+":"+clauseLabel(cl, i), g.T, node)
		} else {
			x.assume(st, g.T)
		}
	}
}

func (x *Unit) convertArith(st *State, v Val, to types.Type) Val {
	if to == nil || v.Typ == nil {
		return v
	}
	if isUntypedConst(v.Typ) {
		return x.convert(st, v, to)
	}
	return v
}

func (x *Unit) execReturn(st *State, s *ast.ReturnStmt) {
	fr := x.fr
	res := fr.fnType.Results()
	if len(s.Results) > 0 {
		var vals []Val
		if len(s.Results) == 1 && res.Len() > 1 {
			vals = x.evalN(st, s.Results[0], res.Len())
		} else {
			for _, r := range s.Results {
				vals = append(vals, x.eval(st, r))
			}
		}
		if live(st) == nil {
			return
		}
		for i := 0; i < res.Len() && i < len(vals); i++ {
			x.writeVar(st, fr.results[i], x.convert(st, vals[i], res.At(i).Type()))
		}
	}
	fr.returns = append(fr.returns, st)
}

// ---------- loops

type loopInfo struct {
	ord   int
	spec  loopSpec
	label string
}

func (x *Unit) nextLoop() (int, loopSpec) {
	k := *x.fr.loopN
	*x.fr.loopN = k + 1
	var ls loopSpec
	if b := x.eng.blockFor(x.pkg.PkgPath, x.fr.loopBase); b != nil {
		for _, c := range b.Clauses {
			if c.Loop == k && c.Kind == "invariant" {
				ls.invs = append(ls.invs, c)
			}
			if c.Loop == k && c.Kind == "decreases" {
				ls.decs = append(ls.decs, c)
			}
			if c.Loop == k && c.Kind == "step" {
				ls.steps = append(ls.steps, c)
			}
		}
	}
	return k, ls
}

// modified: which env vars / heap keys / ghosts differ between base and the given back-edge states.
type modset struct {
	keepShape map[types.Object]bool // slice variables never assigned as a whole inside the loop
	vars      map[types.Object]bool
	heap      map[string]Sort
	ghost     map[string]bool
	all       bool
}

func newModset() *modset {
	return &modset{vars: map[types.Object]bool{}, heap: map[string]Sort{}, ghost: map[string]bool{}}
}

func (m *modset) size() int { return len(m.vars) + len(m.heap) + len(m.ghost) }

func (x *Unit) diffInto(m *modset, base *State, after []*State) {
	for _, a := range after {
		if a == nil {
			continue
		}
		for o, v := range base.env {
			if av, ok := a.env[o]; ok && av.S != v.S {
				m.vars[o] = true
			}
		}
		for k, h := range a.heap {
			if bh, ok := base.heap[k]; !ok || bh.S != h.S {
				if !ok && a.epoch == base.epoch {
					// first read of an untouched key registers the epoch version: not a modification
					if x.epochLookup(base.epoch, k, h.Sort).S == h.S {
						continue
					}
				}
				m.heap[k] = h.Sort
			}
		}
		if a.epoch != base.epoch {
			m.all = true
		}
		for k, g := range a.ghost {
			if bg, ok := base.ghost[k]; !ok || bg.S != g.S {
				if !ok {
					if eg, ok2 := x.entry.ghost[k]; ok2 && eg.S == g.S {
						continue
					}
				}
				m.ghost[k] = true
			}
		}
		if a.alloc.S != base.alloc.S {
			m.ghost["$alloc"] = true
		}
	}
}

func (x *Unit) havocMods(st *State, m *modset) {
	if m.all {
		x.havocAllHeap(st)
	}
	for o := range m.vars {
		old, ok := st.env[o]
		if !ok {
			continue
		}
		v := Val{x.fresh(o.Name(), x.u.SortOf(o.Type())), o.Type()}
		st.env[o] = v
		if _, isSlice := x.u.sliceElem[v.Sort]; isSlice && m.keepShape != nil && m.keepShape[o] && old.Sort == v.Sort {
			// only elements of this slice variable are written in the loop: its length and capacity stay
			x.assume(st, And(Eq(x.u.SliceLen(v.T), x.u.SliceLen(old.T)), Eq(x.u.SliceCap(v.T), x.u.SliceCap(old.T))))
		}
	}
	for k, srt := range m.heap {
		st.heap[k] = x.fresh("H_"+k, srt)
	}
	for k := range m.ghost {
		if k == "$alloc" {
			na := x.fresh("alloc", SInt)
			x.assume(st, Cmp(">=", na, st.alloc))
			st.alloc = na
			continue
		}
		g, ok := st.ghost[k]
		if !ok {
			g = x.entry.ghost[k]
		}
		ng := Val{x.fresh("G_"+k, g.Sort), g.Typ}
		if k == "now" || strings.HasPrefix(k, "calls:") || strings.HasPrefix(k, "ev_") {
			x.assume(st, Cmp(">=", ng.T, g.T)) // the clock and call counters only move forward
		}
		st.ghost[k] = ng
	}
	// typing facts of havocked variables (after alloc is settled)
	for o := range m.vars {
		if v, ok := st.env[o]; ok {
			x.assume(st, x.typeInv(st, v, 0))
		}
	}
}

func (x *Unit) havocAllHeap(st *State) {
	st.epoch = x.newEpoch()
	st.heap = map[string]T{}
	na := x.fresh("alloc", SInt)
	x.assume(st, Cmp(">=", na, st.alloc))
	st.alloc = na
}

type savepoint struct {
	nobls, nret, npan, nuns int
	loopN                   int
	callOrd                 map[string]int
	atSeen                  map[int]int
}

func (x *Unit) save() savepoint {
	sp := savepoint{nobls: len(x.obls), nret: len(x.fr.returns), npan: len(x.fr.panics), nuns: len(x.unsupported), loopN: *x.fr.loopN}
	sp.callOrd = map[string]int{}
	for k, v := range x.callOrd {
		sp.callOrd[k] = v
	}
	sp.atSeen = map[int]int{}
	for k, v := range x.atSeen {
		sp.atSeen[k] = v
	}
	return sp
}

func (x *Unit) restore(sp savepoint) {
	for _, o := range x.obls[sp.nobls:] {
		x.oblNames[obligationBase(o.Name)]--
	}
	x.obls = x.obls[:sp.nobls]
	x.fr.returns = x.fr.returns[:sp.nret]
	x.fr.panics = x.fr.panics[:sp.npan]
	x.unsupported = x.unsupported[:sp.nuns]
	*x.fr.loopN = sp.loopN
	x.callOrd = sp.callOrd
	x.atSeen = sp.atSeen
}

func obligationBase(name string) string {
	for i := len(name) - 1; i >= 0; i-- {
		if name[i] == '#' {
			return name[:i]
		}
		if name[i] == ']' {
			break
		}
	}
	return name
}

// loopBody describes one iteration for the generic loop driver.
type loopBody struct {
	// cond evaluates the loop condition on st (may have effects) and returns it
	cond func(st *State) T
	// body executes the iteration body (after cond holds) and returns the fallthrough state
	body func(st *State, fl *flow) *State
	// post executes the post statement on the back-edge state
	post func(st *State) *State
	// auto invariants (range index bounds ...)
	auto func(st *State) T
	node ast.Node
	// extra contract names available in the loop's clauses
	names func(st *State) map[string]Val
}

func (x *Unit) runLoop(pre *State, lb loopBody, fl *flow, label string) *State {
	k, spec := x.nextLoop()
	// contract expressions about the loop may mention rangeidx (hidden index of a range loop) and rangekey (map key of the iteration)
	loopCtx := func(st *State) *specCtx {
		c := x.bodySpecCtx(st, lb.node)
		if lb.names != nil {
			for n, v := range lb.names(st) {
				c.names[n] = v
			}
		}
		if rk, ok := st.spec["$rangekey"]; ok {
			c.names["rangekey"] = rk
		}
		return c
	}
	endLoopN := -1
	// 1. find the modified set by dry runs to a fixpoint
	mods := newModset()
	mods.keepShape = x.elementOnlySlices(lb.node)
	for iter := 0; iter < 6; iter++ {
		sp := x.save()
		x.dry++
		h := pre.clone()
		x.havocMods(h, mods)
		base := h.clone()
		inner := newFlow()
		c := lb.cond(h)
		x.assume(h, c)
		end := lb.body(h, inner)
		back := append([]*State{end}, inner.conts[""]...)
		if label != "" {
			back = append(back, inner.conts[label]...)
		}
		bs := x.mergeAll(back)
		if bs != nil && lb.post != nil {
			bs = lb.post(bs)
		}
		x.dry--
		endLoopN = *x.fr.loopN
		x.restore(sp)
		before := mods.size()
		wasAll := mods.all
		if bs != nil {
			x.diffInto(mods, base, []*State{bs})
		}
		if mods.size() == before && mods.all == wasAll {
			break
		}
	}
	// 2. invariants on entry
	for i, inv := range spec.invs {
		g := x.specEval(pre, inv.Expr, loopCtx(pre))
		x.oblige(pre, fmt.Sprintf("loop%d.inv.entry", k), clauseLabel(inv, i), g.T, lb.node)
	}
	// 3. arbitrary iteration
	head := pre.clone()
	x.havocMods(head, mods)
	if lb.auto != nil {
		x.assume(head, lb.auto(head))
	}
	for _, inv := range spec.invs {
		g := x.specEval(head, inv.Expr, loopCtx(head))
		x.assume(head, g.T)
	}
	// the function's declared frame is an automatic loop invariant
	if x.fr.parent == nil && x.inlineDepth == 0 {
		x.frameCheck(pre, fmt.Sprintf("loop%d.frame.entry", k), lb.node)
		x.frameAssume(head)
	}
	if x.dry == 0 {
		o := x.oblige(head, fmt.Sprintf("loop%d.canary", k), "reachable", False, lb.node)
		o.WantSat = true
		o.Kind = "canary"
	}
	var dec0 []T
	for _, d := range spec.decs {
		dec0 = append(dec0, x.specEval(head, d.Expr, loopCtx(head)).T)
	}
	it := head.clone()
	iterSnap := head.clone()
	c := lb.cond(it)
	exit := it.clone()
	x.assume(exit, Not(c))
	x.assume(it, c)
	inner := newFlow()
	end := lb.body(it, inner)
	back := append([]*State{end}, inner.conts[""]...)
	if label != "" {
		back = append(back, inner.conts[label]...)
		delete(inner.conts, label)
	}
	delete(inner.conts, "")
	bs := x.mergeAll(back)
	if bs != nil && lb.post != nil {
		bs = lb.post(bs)
	}
	if live(bs) != nil {
		if lb.auto != nil {
			x.oblige(bs, fmt.Sprintf("loop%d.auto.preserved", k), "range", lb.auto(bs), lb.node)
		}
		for i, inv := range spec.invs {
			g := x.specEval(bs, inv.Expr, loopCtx(bs))
			x.oblige(bs, fmt.Sprintf("loop%d.inv.preserved", k), clauseLabel(inv, i), g.T, lb.node)
		}
		if x.fr.parent == nil && x.inlineDepth == 0 {
			x.frameCheck(bs, fmt.Sprintf("loop%d.frame.preserved", k), lb.node)
		}
		for i, sc := range spec.steps {
			// per-iteration clause: iter(e) is e at the head of this iteration
			savedIter := x.iterState
			x.iterState = iterSnap
			sctx := loopCtx(bs)
			// a step clause speaks about a completed iteration: locals declared in the body are visible
			switch ln := lb.node.(type) {
			case *ast.ForStmt:
				sctx.pos = ln.Body.Rbrace
			case *ast.RangeStmt:
				sctx.pos = ln.Body.Rbrace
			}
			g := x.specEval(bs, sc.Expr, sctx)
			x.iterState = savedIter
			x.oblige(bs, fmt.Sprintf("loop%d.step", k), clauseLabel(sc, i), g.T, lb.node)
		}
		for i, d := range spec.decs {
			d1 := x.specEval(bs, d.Expr, loopCtx(bs)).T
			x.oblige(bs, fmt.Sprintf("loop%d.decreases", k), clauseLabel(d, i), And(Cmp(">=", dec0[i], IntLit(0)), Cmp("<", d1, dec0[i])), lb.node)
		}
	}
	if endLoopN >= 0 && *x.fr.loopN < endLoopN {
		*x.fr.loopN = endLoopN
	}
	// 4. after the loop
	outs := []*State{live(exit)}
	outs = append(outs, inner.breaks[""]...)
	if label != "" {
		outs = append(outs, inner.breaks[label]...)
		delete(inner.breaks, label)
	}
	delete(inner.breaks, "")
	for l, ss := range inner.breaks {
		fl.breaks[l] = append(fl.breaks[l], ss...)
	}
	for l, ss := range inner.conts {
		fl.conts[l] = append(fl.conts[l], ss...)
	}
	return x.mergeAll(outs)
}

func clauseLabel(c Clause, i int) string {
	if c.Label != "" {
		return c.Label
	}
	return fmt.Sprint(i)
}

func (x *Unit) execFor(st *State, s *ast.ForStmt, fl *flow, label string) *State {
	if s.Init != nil {
		st = x.execStmt(st, s.Init, fl, "")
		if st == nil {
			return nil
		}
	}
	lb := loopBody{
		node: s,
		cond: func(h *State) T {
			if s.Cond == nil {
				return True
			}
			return x.eval(h, s.Cond).T
		},
		body: func(h *State, inner *flow) *State {
			return x.execBlock(h, s.Body.List, inner)
		},
	}
	if s.Post != nil {
		lb.post = func(h *State) *State { return x.execStmt(h, s.Post, newFlow(), "") }
	}
	return x.runLoop(st, lb, fl, label)
}

func (x *Unit) execRange(st *State, s *ast.RangeStmt, fl *flow, label string) *State {
	xt := x.info.TypeOf(s.X)
	coll := x.eval(st, s.X)
	// index variable (hidden when absent)
	idxObj := types.Object(types.NewVar(s.Pos(), x.pkg.Types, "$range", types.Typ[types.Int]))
	keyLV := &LV{kind: lvBlank}
	valLV := &LV{kind: lvBlank}
	bind := func(e ast.Expr) *LV {
		if e == nil {
			return &LV{kind: lvBlank}
		}
		if id, ok := e.(*ast.Ident); ok {
			if id.Name == "_" {
				return &LV{kind: lvBlank}
			}
			if s.Tok == token.DEFINE {
				o := x.info.Defs[id]
				return &LV{kind: lvVar, obj: o, typ: o.Type()}
			}
		}
		return x.lvalue(st, e)
	}
	keyLV = bind(s.Key)
	valLV = bind(s.Value)
	setKV := func(h *State, k, v *Val) {
		if k != nil && keyLV.kind != lvBlank {
			x.writeLV(h, keyLV, x.convert(h, *k, keyLV.typ))
		}
		if v != nil && valLV.kind != lvBlank {
			x.writeLV(h, valLV, x.convert(h, *v, valLV.typ))
		}
	}
	// make loop-scoped variables exist before the loop so that havoc/merge see them
	if keyLV.kind == lvVar && s.Tok == token.DEFINE {
		st.env[keyLV.obj] = x.zero(keyLV.typ)
	}
	if valLV.kind == lvVar && s.Tok == token.DEFINE {
		st.env[valLV.obj] = x.zero(valLV.typ)
	}
	var lb loopBody
	lb.node = s
	switch tt := under(xt).(type) {
	case *types.Slice, *types.Array, *types.Basic, *types.Pointer:
		var ln T
		elemAt := func(h *State, i T) *Val { return nil }
		isStr := false
		switch t2 := tt.(type) {
		case *types.Slice:
			ln = x.u.SliceLen(coll.T)
			// elements are read from the backing array at each iteration: when the range expression is a variable that the
			// loop never assigns as a whole, that is the variable's current array (element writes in the body are seen)
			var liveVar types.Object
			if id, ok := ast.Unparen(s.X).(*ast.Ident); ok {
				if o, ok := x.info.ObjectOf(id).(*types.Var); ok && !x.assignedWhole(s.Body, o) {
					if _, boxed := x.boxed[o]; !boxed {
						liveVar = o
					}
				}
			}
			elemAt = func(h *State, i T) *Val {
				arr := x.u.SliceArr(coll.T)
				if liveVar != nil {
					if cur, ok := h.env[liveVar]; ok && cur.Sort == coll.Sort {
						arr = x.u.SliceArr(cur.T)
					}
				}
				v := Val{Select(arr, i), t2.Elem()}
				x.assume(h, x.typeInv(h, v, 1))
				return &v
			}
		case *types.Array:
			ln = IntLit(t2.Len())
			elemAt = func(h *State, i T) *Val { return &Val{Select(coll.T, i), t2.Elem()} }
		case *types.Basic:
			if t2.Info()&types.IsString != 0 {
				isStr = true
				ln = App(SInt, "gs.len", coll.T)
				elemAt = func(h *State, i T) *Val {
					r := x.freshVal(h, "rune", types.Typ[types.Rune])
					x.assume(h, Cmp(">=", r.T, IntLit(0)))
					return &r
				}
			} else { // range over integer
				ln = coll.T
				elemAt = nil
			}
		default:
			x.unsupportedf(s, "range over %v", xt)
			return st
		}
		st.env[idxObj] = Val{IntLit(0), types.Typ[types.Int]}
		lb.auto = func(h *State) T {
			i := h.env[idxObj].T
			return And(Cmp(">=", i, IntLit(0)), Cmp("<=", i, ln))
		}
		lb.names = func(h *State) map[string]Val { return map[string]Val{"rangeidx": h.env[idxObj]} }
		lb.cond = func(h *State) T { return Cmp("<", h.env[idxObj].T, ln) }
		lb.body = func(h *State, inner *flow) *State {
			i := h.env[idxObj]
			if elemAt != nil {
				setKV(h, &i, elemAt(h, i.T))
			} else {
				setKV(h, &i, nil)
			}
			return x.execBlock(h, s.Body.List, inner)
		}
		lb.post = func(h *State) *State {
			i := h.env[idxObj].T
			if isStr {
				w := x.fresh("runew", SInt)
				x.assume(h, And(Cmp(">=", w, IntLit(1)), Cmp("<=", w, IntLit(4)), Cmp("<=", App(SInt, "+", i, w), ln)))
				h.env[idxObj] = Val{App(SInt, "+", i, w), types.Typ[types.Int]}
			} else {
				h.env[idxObj] = Val{App(SInt, "+", i, IntLit(1)), types.Typ[types.Int]}
			}
			return h
		}
	case *types.Map:
		// unknown number of iterations over distinct present keys
		st.env[idxObj] = Val{IntLit(0), types.Typ[types.Int]}
		len0 := x.define("rangelen", x.mapLenT(st, coll)) // the number of iterations is fixed when the loop starts
		x.assume(st, Cmp(">=", len0, IntLit(0)))
		lb.auto = func(h *State) T {
			i := h.env[idxObj].T
			return And(Cmp(">=", i, IntLit(0)), Cmp("<=", i, len0))
		}
		lb.cond = func(h *State) T { return Cmp("<", h.env[idxObj].T, len0) }
		lb.body = func(h *State, inner *flow) *State {
			k := x.freshVal(h, "key", tt.Key())
			x.assume(h, x.mapHas(h, coll, k.T))
			v := Val{Select(x.u.MapVal(x.mapContent(h, coll)), k.T), tt.Elem()}
			x.assume(h, x.typeInv(h, v, 1))
			h.spec["$rangekey"] = k
			setKV(h, &k, &v)
			return x.execBlock(h, s.Body.List, inner)
		}
		lb.post = func(h *State) *State {
			h.env[idxObj] = Val{App(SInt, "+", h.env[idxObj].T, IntLit(1)), types.Typ[types.Int]}
			return h
		}
		x.note("range over a map visits an arbitrary present key per iteration; distinctness of visited keys is not modelled")
	case *types.Chan:
		lb.cond = func(h *State) T {
			x.envStep(h)
			return x.fresh("chanopen", SBool)
		}
		lb.body = func(h *State, inner *flow) *State {
			v := x.freshVal(h, "recv", tt.Elem())
			setKV(h, &v, nil)
			return x.execBlock(h, s.Body.List, inner)
		}
	case *types.Signature:
		x.unsupportedf(s, "range over func")
		return st
	default:
		x.unsupportedf(s, "range over %v", xt)
		return st
	}
	out := x.runLoop(st, lb, fl, label)
	if out != nil {
		delete(out.env, idxObj)
	}
	return out
}

// ---------- switch / select

func (x *Unit) execSwitch(st *State, s *ast.SwitchStmt, fl *flow, label string) *State {
	if s.Init != nil {
		st = x.execStmt(st, s.Init, fl, "")
		if st == nil {
			return nil
		}
	}
	var tag *Val
	if s.Tag != nil {
		v := x.eval(st, s.Tag)
		tag = &v
	}
	inner := &flow{breaks: map[string][]*State{}, conts: fl.conts}
	var outs []*State
	rest := st
	var deflt *ast.CaseClause
	for _, cs := range s.Body.List {
		cc := cs.(*ast.CaseClause)
		if cc.List == nil {
			deflt = cc
			continue
		}
		if rest == nil {
			break
		}
		var conds []T
		for _, e := range cc.List {
			v := x.eval(rest, e)
			if tag != nil {
				conds = append(conds, x.binop(rest, token.EQL, *tag, v, nil, e).T)
			} else {
				conds = append(conds, v.T)
			}
		}
		c := Or(conds...)
		a := rest.clone()
		x.assume(a, c)
		x.assume(rest, Not(c))
		if !c.IsFalse() {
			outs = append(outs, x.execCaseBody(a, cc.Body, inner))
		}
		rest = live(rest)
	}
	if rest != nil {
		if deflt != nil {
			outs = append(outs, x.execCaseBody(rest, deflt.Body, inner))
		} else {
			outs = append(outs, rest)
		}
	}
	outs = append(outs, inner.breaks[""]...)
	if label != "" {
		outs = append(outs, inner.breaks[label]...)
		delete(inner.breaks, label)
	}
	delete(inner.breaks, "")
	for l, ss := range inner.breaks {
		fl.breaks[l] = append(fl.breaks[l], ss...)
	}
	return x.mergeAll(outs)
}

func (x *Unit) execCaseBody(st *State, body []ast.Stmt, fl *flow) *State {
	for _, s := range body {
		if b, ok := s.(*ast.BranchStmt); ok && b.Tok == token.FALLTHROUGH {
			x.unsupportedf(s, "fallthrough")
		}
	}
	return x.execBlock(st, body, fl)
}

func (x *Unit) execTypeSwitch(st *State, s *ast.TypeSwitchStmt, fl *flow, label string) *State {
	if s.Init != nil {
		st = x.execStmt(st, s.Init, fl, "")
		if st == nil {
			return nil
		}
	}
	var subject ast.Expr
	var bindName *ast.Ident
	switch a := s.Assign.(type) {
	case *ast.ExprStmt:
		subject = a.X.(*ast.TypeAssertExpr).X
	case *ast.AssignStmt:
		subject = a.Rhs[0].(*ast.TypeAssertExpr).X
		bindName = a.Lhs[0].(*ast.Ident)
	}
	_ = bindName
	v := x.eval(st, subject)
	inner := &flow{breaks: map[string][]*State{}, conts: fl.conts}
	var outs []*State
	rest := st
	var deflt *ast.CaseClause
	for _, cs := range s.Body.List {
		cc := cs.(*ast.CaseClause)
		if cc.List == nil {
			deflt = cc
			continue
		}
		if rest == nil {
			break
		}
		var conds []T
		var single types.Type
		for _, e := range cc.List {
			if tv, ok := x.info.Types[e]; ok && tv.IsNil() {
				conds = append(conds, Eq(IfaceTyp(v.T), IntLit(0)))
				continue
			}
			t := x.info.TypeOf(e)
			single = t
			conds = append(conds, x.typeTest(v, t))
		}
		c := Or(conds...)
		a := rest.clone()
		x.assume(a, c)
		x.assume(rest, Not(c))
		if o := x.info.Implicits[cc]; o != nil {
			if len(cc.List) == 1 && single != nil && !isIface(single) {
				a.env[o] = Val{x.u.Unbox(IfaceVal(v.T), x.u.SortOf(single)), single}
				x.assume(a, x.typeInv(a, a.env[o], 1))
				x.assumeNoTypedNil(a, a.env[o])
				x.reflectLenFact(v, a.env[o], c)
			} else {
				a.env[o] = Val{v.T, o.Type()}
			}
		}
		outs = append(outs, x.execCaseBody(a, cc.Body, inner))
		rest = live(rest)
	}
	if rest != nil {
		if deflt != nil {
			if o := x.info.Implicits[deflt]; o != nil {
				rest.env[o] = Val{v.T, o.Type()}
			}
			outs = append(outs, x.execCaseBody(rest, deflt.Body, inner))
		} else {
			outs = append(outs, rest)
		}
	}
	outs = append(outs, inner.breaks[""]...)
	if label != "" {
		outs = append(outs, inner.breaks[label]...)
		delete(inner.breaks, label)
	}
	delete(inner.breaks, "")
	for l, ss := range inner.breaks {
		fl.breaks[l] = append(fl.breaks[l], ss...)
	}
	return x.mergeAll(outs)
}

func (x *Unit) execSelect(st *State, s *ast.SelectStmt, fl *flow, label string) *State {
	type selCase struct {
		cc      *ast.CommClause
		ch      Val
		recv    bool
		enabled T
		known   bool
		sendVal Val
		chExpr  ast.Expr
	}
	var cases []*selCase
	var deflt *ast.CommClause
	for _, c := range s.Body.List {
		cc := c.(*ast.CommClause)
		if cc.Comm == nil {
			deflt = cc
			continue
		}
		sc := &selCase{cc: cc}
		switch cm := cc.Comm.(type) {
		case *ast.SendStmt:
			sc.ch = x.eval(st, cm.Chan)
			sc.sendVal = x.eval(st, cm.Value)
		case *ast.ExprStmt:
			sc.recv = true
			sc.chExpr = ast.Unparen(cm.X).(*ast.UnaryExpr).X
			sc.ch = x.eval(st, ast.Unparen(cm.X).(*ast.UnaryExpr).X)
		case *ast.AssignStmt:
			sc.recv = true
			sc.chExpr = ast.Unparen(cm.Rhs[0]).(*ast.UnaryExpr).X
			sc.ch = x.eval(st, ast.Unparen(cm.Rhs[0]).(*ast.UnaryExpr).X)
		}
		cases = append(cases, sc)
	}
	// the operands are evaluated first, then the select waits (time passes) until a case is ready
	x.envStep(st)
	for _, sc := range cases {
		if sc.recv {
			sc.enabled, sc.known = x.recvEnabled(st, sc.ch)
		} else {
			sc.enabled, sc.known = x.sendEnabled(st, sc.ch)
		}
	}
	inner := &flow{breaks: map[string][]*State{}, conts: fl.conts}
	var outs []*State
	choice := x.fresh("select", SInt)
	x.selectChoices = append(x.selectChoices, choice.S)
	for i, sc := range cases {
		a := st.clone()
		x.assume(a, Eq(choice, IntLit(int64(i))))
		x.assume(a, sc.enabled)
		if sc.recv {
			ct, _ := under(sc.ch.Typ).(*types.Chan)
			var et types.Type = types.Typ[types.Int]
			if ct != nil {
				et = ct.Elem()
			}
			val, ok := x.recvValue(a, sc.ch, et)
			x.recordRecv(a, sc.chExpr, val, ok)
			if as, isAs := sc.cc.Comm.(*ast.AssignStmt); isAs {
				vals := []Val{val, ok}
				for j, l := range as.Lhs {
					if j >= 2 {
						break
					}
					id, isId := l.(*ast.Ident)
					if isId && id.Name == "_" {
						continue
					}
					var lv *LV
					if as.Tok == token.DEFINE && isId {
						o := x.info.Defs[id]
						lv = &LV{kind: lvVar, obj: o, typ: o.Type()}
					} else {
						lv = x.lvalue(a, l)
					}
					x.writeLV(a, lv, x.convert(a, vals[j], lv.typ))
				}
			}
		} else {
			x.chanSendEffect(a, sc.ch, sc.sendVal, sc.cc)
		}
		if live(a) != nil {
			outs = append(outs, x.execBlock(a, sc.cc.Body, inner))
		}
	}
	if deflt != nil {
		a := st.clone()
		x.assume(a, Eq(choice, IntLit(int64(len(cases)))))
		for _, sc := range cases {
			if sc.known {
				x.assume(a, Not(sc.enabled))
			}
		}
		if live(a) != nil {
			outs = append(outs, x.execBlock(a, deflt.Body, inner))
		}
	}
	outs = append(outs, inner.breaks[""]...)
	if label != "" {
		outs = append(outs, inner.breaks[label]...)
		delete(inner.breaks, label)
	}
	delete(inner.breaks, "")
	for l, ss := range inner.breaks {
		fl.breaks[l] = append(fl.breaks[l], ss...)
	}
	return x.mergeAll(outs)
}

// ---------- defer / go

func (x *Unit) execDefer(st *State, s *ast.DeferStmt) {
	d := &deferEntry{guard: True, call: s.Call}
	if lit, ok := ast.Unparen(s.Call.Fun).(*ast.FuncLit); ok {
		d.fnLit = lit
		for _, a := range s.Call.Args {
			d.args = append(d.args, x.eval(st, a))
		}
	} else if id, ok := ast.Unparen(s.Call.Fun).(*ast.Ident); ok && x.isBuiltin(s.Call, id.Name) {
		d.builtin = id.Name
		for _, a := range s.Call.Args {
			d.args = append(d.args, x.eval(st, a))
		}
		if id.Name != "close" {
			x.unsupportedf(s, "defer of builtin %s", id.Name)
		}
	} else {
		// evaluate receiver/function value and arguments now
		d2 := x.prepareCall(st, s.Call)
		d.args = d2.args
		d.recv = d2.recv
		d.callee = d2.callee
		d.funVal = d2.funVal
	}
	st.defers = append(st.defers, d)
}

func (x *Unit) execGo(st *State, s *ast.GoStmt) {
	x.note("go statements: the spawned goroutine's effects on the spawner's state are not modelled")
	for _, a := range s.Call.Args {
		x.eval(st, a)
	}
	if lit, ok := ast.Unparen(s.Call.Fun).(*ast.FuncLit); ok {
		// variables assigned inside the literal and captured from the spawner become unknown
		ast.Inspect(lit.Body, func(n ast.Node) bool {
			as, ok := n.(*ast.AssignStmt)
			if !ok || as.Tok == token.DEFINE {
				return true
			}
			for _, l := range as.Lhs {
				if id, ok := l.(*ast.Ident); ok {
					if o := x.info.Uses[id]; o != nil {
						if _, in := st.env[o]; in && !(lit.Pos() <= o.Pos() && o.Pos() <= lit.End()) {
							st.env[o] = x.freshVal(st, o.Name(), o.Type())
						}
					}
				}
			}
			return true
		})
	} else {
		x.prepareCall(st, s.Call)
	}
	// a spawned literal under contract starts in the spawner's state: its requires are checked here
	if lit, ok := ast.Unparen(s.Call.Fun).(*ast.FuncLit); ok {
		if lb := x.eng.blockFor(x.pkg.PkgPath, x.litKey(lit)); lb != nil {
			c := x.bodySpecCtx(st, s)
			c.scope = x.pkg.Types.Scope().Innermost(lit.Body.Lbrace + 1)
			c.pos = lit.Body.Lbrace + 1
			for i, cl := range lb.ClausesOf("requires") {
				g := x.specEval(st, cl.Expr, c)
				x.oblige(st, "requires", "go "+lb.Key+":"+clauseLabel(cl, i), g.T, s)
			}
			x.calleesUsed[x.pkg.PkgPath+"."+lb.Key] = true
		}
	}
	defer x.bumpEvent(st, "spawn")
	// "at go NAME assert e": NAME is the spawned callee text or "lit" (evaluated just before the spawn)
	if b := x.eng.blockFor(x.pkg.PkgPath, x.fr.loopBase); b != nil {
		name := x.srcOf(s.Call.Fun)
		if _, ok := ast.Unparen(s.Call.Fun).(*ast.FuncLit); ok {
			name = "lit"
		}
		ordKey := x.fr.loopBase + "|go " + name
		ord := x.callOrd[ordKey]
		x.callOrd[ordKey] = ord + 1
		for i, cl := range b.Clauses {
			if cl.Kind != "at" || cl.AtKind != "go" || cl.AtName != name {
				continue
			}
			if cl.AtOrd >= 0 && cl.AtOrd != ord {
				continue
			}
			x.atSeen[i]++
			c := x.bodySpecCtx(st, s)
			g := x.specEval(st, cl.Expr, c)
			if cl.AtAction == "assert" {
				x.oblige(st, "at", fmt.Sprintf("go %s:%s", name, clauseLabel(cl, i)), g.T, s)
			} else {
				x.assume(st, g.T)
			}
		}
	}
}

// elementOnlySlices: slice-typed variables that the loop writes only through index expressions (never as a whole).
func (x *Unit) elementOnlySlices(loop ast.Node) map[types.Object]bool {
	if loop == nil {
		return nil
	}
	whole := map[types.Object]bool{}
	indexed := map[types.Object]bool{}
	mark := func(e ast.Expr, m map[types.Object]bool) {
		if id, ok := ast.Unparen(e).(*ast.Ident); ok {
			if o := x.info.ObjectOf(id); o != nil {
				m[o] = true
			}
		}
	}
	ast.Inspect(loop, func(n ast.Node) bool {
		switch n := n.(type) {
		case *ast.AssignStmt:
			for _, l := range n.Lhs {
				mark(l, whole)
				// a[i] = v, a[i].f = v
				e := ast.Unparen(l)
				for {
					switch t := e.(type) {
					case *ast.SelectorExpr:
						e = ast.Unparen(t.X)
						continue
					case *ast.IndexExpr:
						mark(t.X, indexed)
						e = ast.Unparen(t.X)
						continue
					}
					break
				}
			}
		case *ast.IncDecStmt:
			mark(n.X, whole)
		case *ast.RangeStmt:
			if n.Key != nil {
				mark(n.Key, whole)
			}
			if n.Value != nil {
				mark(n.Value, whole)
			}
		case *ast.UnaryExpr:
			if n.Op == token.AND {
				mark(n.X, whole)
			}
		case *ast.CallExpr:
			// copy(dst, ...) writes elements of dst
			if x.isBuiltin(n, "copy") && len(n.Args) > 0 {
				mark(n.Args[0], indexed)
			}
		}
		return true
	})
	out := map[types.Object]bool{}
	for o := range indexed {
		if !whole[o] {
			out[o] = true
		}
	}
	return out
}

// assignedWhole: does the code assign variable o as a whole (o = ..., o, x = ..., &o, range key/value)?
func (x *Unit) assignedWhole(body ast.Node, o types.Object) bool {
	found := false
	is := func(e ast.Expr) bool {
		id, ok := ast.Unparen(e).(*ast.Ident)
		return ok && x.info.ObjectOf(id) == o
	}
	ast.Inspect(body, func(n ast.Node) bool {
		switch n := n.(type) {
		case *ast.AssignStmt:
			for _, l := range n.Lhs {
				if is(l) {
					found = true
				}
			}
		case *ast.IncDecStmt:
			if is(n.X) {
				found = true
			}
		case *ast.UnaryExpr:
			if n.Op == token.AND && is(n.X) {
				found = true
			}
		case *ast.RangeStmt:
			if (n.Key != nil && is(n.Key)) || (n.Value != nil && is(n.Value)) {
				found = true
			}
		}
		return !found
	})
	return found
}
