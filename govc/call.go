package main

import (
	"os"
	"fmt"
	"go/ast"
	"go/token"
	"go/types"
	"strings"
)

type closure struct {
	lit    *ast.FuncLit
	unit   *Unit
	fn     *types.Func
	method *types.Func
	recv   *Val
}

type preparedCall struct {
	call    *ast.CallExpr
	callee  *types.Func
	recv    *Val
	recvLV  *LV
	funVal  *Val
	args    []Val
	lit     *ast.FuncLit
	fieldOf string // "T.f" when the function value was read from a struct field
	iface   bool
	sig     *types.Signature
}

func (x *Unit) evalCall(st *State, call *ast.CallExpr, n int) []Val {
	return x.evalCall1(st, call, n)
}

func (x *Unit) evalCall1(st *State, call *ast.CallExpr, n int) []Val {
	fun := ast.Unparen(call.Fun)
	// conversion
	if tv, ok := x.info.Types[fun]; ok && tv.IsType() {
		return []Val{x.evalConversion(st, call, tv.Type)}
	}
	// builtins
	if id, ok := fun.(*ast.Ident); ok {
		if b, ok := x.info.Uses[id].(*types.Builtin); ok {
			return x.evalBuiltin(st, call, b.Name(), n)
		}
	}
	pc := x.prepareCall(st, call)
	return x.invoke(st, pc, n)
}

func (x *Unit) evalConversion(st *State, call *ast.CallExpr, to types.Type) Val {
	v := x.eval(st, call.Args[0])
	from := v.Typ
	toS := x.u.SortOf(to)
	switch {
	case isIface(to):
		return x.convert(st, v, to)
	case v.Sort == toS && toS != SStr:
		return Val{v.T, to}
	case toS == SReal && v.Sort == SInt:
		return Val{ToReal(v.T), to}
	case toS == SInt && v.Sort == SReal:
		return Val{x.define("trunc", truncReal(v.T)), to}
	case toS == SStr && v.Sort == SStr:
		return Val{v.T, to}
	case toS == SStr:
		if _, ok := x.u.sliceElem[v.Sort]; ok {
			r := x.uf("bytes2str_"+sortIdent(v.Sort), SStr, v.T)
			x.fact(Eq(App(SInt, "gs.len", r), x.u.SliceLen(v.T)))
			return Val{r, to}
		}
		return Val{x.uf("int2str", SStr, v.T), to}
	case v.Sort == SStr:
		if es, ok := x.u.sliceElem[toS]; ok {
			_ = es
			if st2, ok := under(to).(*types.Slice); ok {
				if b, ok := under(st2.Elem()).(*types.Basic); ok && b.Kind() == types.Int32 {
					// []rune(s): between 1 and len(s) runes for a non-empty string, none for the empty one
					r := x.define("str2runes", x.uf("str2runes", toS, v.T))
					bl := App(SInt, "gs.len", v.T)
					x.fact(And(Cmp("<=", x.u.SliceLen(r), bl), Cmp(">=", x.u.SliceLen(r), IntLit(0)), Imp(Cmp(">", bl, IntLit(0)), Cmp(">=", x.u.SliceLen(r), IntLit(1))), Cmp(">=", x.u.SliceCap(r), x.u.SliceLen(r))))
					return Val{r, to}
				}
			}
			r := x.define("str2bytes", x.uf("str2bytes_"+sortIdent(toS), toS, v.T))
			x.fact(And(Eq(x.u.SliceLen(r), App(SInt, "gs.len", v.T)), Cmp(">=", x.u.SliceCap(r), x.u.SliceLen(r))))
			return Val{r, to}
		}
	}
	x.unsupportedf(call, "conversion %v -> %v", from, to)
	return x.freshVal(st, "conv", to)
}

func (x *Unit) evalBuiltin(st *State, call *ast.CallExpr, name string, n int) []Val {
	rt := x.info.TypeOf(call)
	switch name {
	case "len", "cap":
		v := x.eval(st, call.Args[0])
		switch tt := under(v.Typ).(type) {
		case *types.Slice:
			if name == "len" {
				return []Val{{x.u.SliceLen(v.T), intT}}
			}
			return []Val{{x.u.SliceCap(v.T), intT}}
		case *types.Basic:
			return []Val{{App(SInt, "gs.len", v.T), intT}}
		case *types.Map:
			x.assume(st, Cmp(">=", x.u.MapLen(x.mapContent(st, v)), IntLit(0)))
			return []Val{{x.define("maplen", x.mapLenT(st, v)), intT}}
		case *types.Array:
			return []Val{{IntLit(tt.Len()), intT}}
		case *types.Chan:
			r := x.freshVal(st, "chanlen", intT)
			x.assume(st, Cmp(">=", r.T, IntLit(0)))
			return []Val{r}
		case *types.Pointer:
			if at, ok := under(tt.Elem()).(*types.Array); ok {
				return []Val{{IntLit(at.Len()), intT}}
			}
		}
	case "append":
		s := x.eval(st, call.Args[0])
		st2, _ := under(rt).(*types.Slice)
		if s.Typ != nil && isUntypedNil(s.Typ) {
			s = x.zero(rt)
		}
		if st2 == nil {
			break
		}
		srt := x.u.SortOf(rt)
		ln, arr := x.u.SliceLen(s.T), x.u.SliceArr(s.T)
		if call.Ellipsis.IsValid() {
			o := x.eval(st, call.Args[1])
			var oln T
			if o.Sort == SStr {
				oln = App(SInt, "gs.len", o.T)
			} else {
				oln = x.u.SliceLen(o.T)
			}
			nl := App(SInt, "+", ln, oln)
			narr := x.fresh("apparr", arr.Sort)
			// frame: prefix unchanged, suffix = other
			x.eng.needAppendAxiom = true
			q := x.nfreshName("i")
			x.fact(T{fmt.Sprintf("(forall ((%s Int)) (! (=> (and (<= 0 %s) (< %s %s)) (= (select %s %s) (select %s %s))) :pattern ((select %s %s))))",
				q, q, q, ln.S, narr.S, q, arr.S, q, narr.S, q), SBool})
			if o.Sort != SStr {
				oarr := x.u.SliceArr(o.T)
				x.fact(T{fmt.Sprintf("(forall ((%s Int)) (! (=> (and (<= 0 %s) (< %s %s)) (= (select %s (+ %s %s)) (select %s %s))) :pattern ((select %s %s))))",
					q, q, q, oln.S, narr.S, ln.S, q, oarr.S, q, oarr.S, q), SBool})
			} else {
				x.fact(T{fmt.Sprintf("(forall ((%s Int)) (! (=> (and (<= 0 %s) (< %s %s)) (= (select %s (+ %s %s)) (gs.at %s %s))) :pattern ((gs.at %s %s))))",
					q, q, q, oln.S, narr.S, ln.S, q, o.S, q, o.S, q), SBool})
			}
			cp := x.fresh("appcap", SInt)
			x.assume(st, Cmp(">=", cp, nl))
			return []Val{{x.define("app", x.u.MkSlice(srt, nl, cp, narr)), rt}}
		}
		cur := arr
		k := int64(0)
		for _, a := range call.Args[1:] {
			v := x.convert(st, x.eval(st, a), st2.Elem())
			cur = Store(cur, App(SInt, "+", ln, IntLit(k)), v.T)
			k++
		}
		nl := App(SInt, "+", ln, IntLit(k))
		cp := x.fresh("appcap", SInt)
		x.assume(st, Cmp(">=", cp, nl))
		return []Val{{x.define("app", x.u.MkSlice(srt, nl, cp, cur)), rt}}
	case "make":
		t := x.info.TypeOf(call.Args[0])
		switch tt := under(t).(type) {
		case *types.Slice:
			ln := x.eval(st, call.Args[1])
			x.oblige(st, "make", x.srcOf(call), Cmp(">=", ln.T, IntLit(0)), call)
			cp := ln.T
			if len(call.Args) > 2 {
				cp = x.eval(st, call.Args[2]).T
				x.oblige(st, "make", x.srcOf(call)+".cap", Cmp(">=", cp, ln.T), call)
			}
			z := x.zero(t)
			return []Val{{x.u.MkSlice(z.Sort, ln.T, cp, x.u.SliceArr(z.T)), t}}
		case *types.Map:
			if len(call.Args) > 1 {
				x.eval(st, call.Args[1])
			}
			return []Val{x.newMap(st, t, x.emptyMapContent(t))}
		case *types.Chan:
			capv := IntLit(0)
			if len(call.Args) > 1 {
				capv = x.eval(st, call.Args[1]).T
				x.oblige(st, "make", x.srcOf(call)+".chansize", Cmp(">=", capv, IntLit(0)), call)
			}
			r := x.alloc(st)
			x.assume(st, Eq(x.uf("chancap", SInt, r), capv))
			x.u.DeclFun("chantype", "(Int) Int")
			x.fact(Eq(App(SInt, "chantype", r), IntLit(int64(x.u.TypeID(tt.Elem())))))
			// a new channel is open and nothing was sent on it
			for _, g := range []string{"chanClosed", "chanSent"} {
				gv := x.ghostGet(st, g)
				var zv Val
				if g == "chanClosed" {
					zv = Val{False, boolT}
				} else {
					zv = Val{IntLit(0), intT}
				}
				x.writeLV(st, &LV{kind: lvMap, parent: &LV{kind: lvGlobal, key: g, typ: gv.Typ}, idx: r, typ: zv.Typ}, zv)
			}
			return []Val{{r, t}}
		}
	case "new":
		t := x.info.TypeOf(call.Args[0])
		r := x.alloc(st)
		if _, ok := under(t).(*types.Struct); ok && !isNamed(t, "time", "Time") {
			x.writeStructAt(st, r, t, x.zero(t).T)
		} else {
			x.writeLV(st, x.derefLV(Val{r, rt}, t), x.zero(t))
		}
		return []Val{{r, rt}}
	case "copy":
		dlv := x.lvalueOrNil(st, call.Args[0])
		d := x.eval(st, call.Args[0])
		s := x.eval(st, call.Args[1])
		var sl T
		if s.Sort == SStr {
			sl = App(SInt, "gs.len", s.T)
		} else {
			sl = x.u.SliceLen(s.T)
		}
		nn := x.define("copyn", Ite(Cmp("<=", sl, x.u.SliceLen(d.T)), sl, x.u.SliceLen(d.T)))
		if dlv != nil {
			narr := x.fresh("copyarr", x.u.SliceArr(d.T).Sort)
			q := x.nfreshName("i")
			darr := x.u.SliceArr(d.T)
			x.fact(T{fmt.Sprintf("(forall ((%s Int)) (! (=> (or (< %s 0) (>= %s %s)) (= (select %s %s) (select %s %s))) :pattern ((select %s %s))))",
				q, q, q, nn.S, narr.S, q, darr.S, q, narr.S, q), SBool})
			if s.Sort != SStr {
				sarr := x.u.SliceArr(s.T)
				x.fact(T{fmt.Sprintf("(forall ((%s Int)) (! (=> (and (<= 0 %s) (< %s %s)) (= (select %s %s) (select %s %s))) :pattern ((select %s %s))))",
					q, q, q, nn.S, narr.S, q, sarr.S, q, narr.S, q), SBool})
			}
			x.writeLV(st, dlv, Val{x.u.MkSlice(d.Sort, x.u.SliceLen(d.T), x.u.SliceCap(d.T), narr), d.Typ})
		}
		return []Val{{nn, intT}}
	case "delete":
		m := x.eval(st, call.Args[0])
		mt := under(m.Typ).(*types.Map)
		k := x.convert(st, x.eval(st, call.Args[1]), mt.Key())
		c := x.mapContent(st, m)
		had := x.mapHas(st, m, k.T)
		nl := Ite(had, App(SInt, "-", x.u.MapLen(c), IntLit(1)), x.u.MapLen(c))
		nm := x.u.MkMap(c.Sort, False, nl, Store(x.u.MapDom(c), k.T, False), x.u.MapVal(c))
		x.assume(st, Not(x.mapIsNil(st, m))) // deleting from a nil map is a no-op; keep the contents model simple
		x.writeLV(st, x.mapLV(m), Val{x.define("mapdel", nm), m.Typ})
		return nil
	case "panic":
		if len(call.Args) == 1 {
			x.eval(st, call.Args[0])
		}
		x.raisePanic(st, "explicit panic", call)
		st.pc = False
		return nil
	case "recover":
		r := x.fresh("recovered", SIface)
		x.fact(Cmp(">", IfaceTyp(r), IntLit(0)))
		v := Ite(st.panicking, r, IfaceNil)
		st.panicking = False
		return []Val{{x.define("rec", v), rt}}
	case "min", "max":
		cur := x.eval(st, call.Args[0])
		for _, a := range call.Args[1:] {
			b := x.eval(st, a)
			op := "<="
			if name == "max" {
				op = ">="
			}
			at, bt := coerce(cur.T, b.T)
			cur = Val{Ite(Cmp(op, at, bt), at, bt), rt}
		}
		return []Val{cur}
	case "close":
		ch := x.eval(st, call.Args[0])
		x.chanClose(st, ch, call)
		return nil
	case "print", "println":
		for _, a := range call.Args {
			x.eval(st, a)
		}
		return nil
	case "clear":
		v := x.eval(st, call.Args[0])
		if _, ok := under(v.Typ).(*types.Map); ok {
			x.writeLV(st, x.mapLV(v), Val{x.emptyMapContent(v.Typ), v.Typ})
		} else {
			x.unsupportedf(call, "clear of %v", v.Typ)
		}
		return nil
	}
	x.unsupportedf(call, "builtin %s", name)
	if rt != nil {
		if tup, ok := rt.(*types.Tuple); ok && tup.Len() == 0 {
			return nil
		}
		return []Val{x.freshVal(st, name, rt)}
	}
	return nil
}

func (x *Unit) nfreshName(p string) string {
	x.nfresh++
	return fmt.Sprintf("%s!q%d", p, x.nfresh)
}

func (x *Unit) lvalueOrNil(st *State, e ast.Expr) *LV {
	switch e := ast.Unparen(e).(type) {
	case *ast.Ident:
		if _, ok := x.info.ObjectOf(e).(*types.Var); ok {
			return x.lvalue(st, e)
		}
	case *ast.SelectorExpr:
		if sel := x.info.Selections[e]; sel != nil && sel.Kind() == types.FieldVal {
			return x.lvalue(st, e)
		}
	case *ast.IndexExpr:
		if lv := x.lvalueOrNil(st, e.X); lv != nil {
			sp := x.save()
			r := x.lvalue(st, e)
			x.restore(sp) // bounds obligations are raised by the value evaluation
			return r
		}
	case *ast.StarExpr:
		return x.lvalue(st, e)
	}
	return nil
}

// prepareCall evaluates the function value / receiver and the arguments.
func (x *Unit) prepareCall(st *State, call *ast.CallExpr) *preparedCall {
	pc := &preparedCall{call: call}
	fun := ast.Unparen(call.Fun)
	if ix, ok := fun.(*ast.IndexExpr); ok { // generic instantiation f[T](...)
		if _, isSig := x.info.TypeOf(ix.X).(*types.Signature); isSig {
			fun = ast.Unparen(ix.X)
		}
	}
	if ix, ok := fun.(*ast.IndexListExpr); ok {
		fun = ast.Unparen(ix.X)
	}
	pc.sig, _ = under(x.info.TypeOf(call.Fun)).(*types.Signature)
	switch f := fun.(type) {
	case *ast.FuncLit:
		pc.lit = f
	case *ast.Ident:
		switch o := x.info.Uses[f].(type) {
		case *types.Func:
			pc.callee = o
		default:
			v := x.eval(st, f)
			pc.funVal = &v
		}
	case *ast.SelectorExpr:
		sel := x.info.Selections[f]
		if sel == nil {
			if o, ok := x.info.Uses[f.Sel].(*types.Func); ok {
				pc.callee = o
			} else {
				v := x.eval(st, f)
				pc.funVal = &v
			}
			break
		}
		switch sel.Kind() {
		case types.MethodVal:
			m := sel.Obj().(*types.Func)
			pc.callee = m
			msig := m.Type().(*types.Signature)
			pc.iface = isIface(sel.Recv())
			// receiver value, following the embedding path
			path := sel.Index()
			recvT := x.info.TypeOf(f.X)
			_, recvIsPtr := under(recvT).(*types.Pointer)
			wantPtr := false
			if msig.Recv() != nil {
				_, wantPtr = under(msig.Recv().Type()).(*types.Pointer)
			}
			if len(path) == 1 && !pc.iface && wantPtr && !recvIsPtr {
				// implicit address-of an addressable value
				pc.recvLV = x.lvalueOrNil(st, f.X)
				r := x.interiorAddr(st, pc.recvLV, f.X)
				rv := Val{r, types.NewPointer(recvT)}
				pc.recv = &rv
			} else if len(path) == 1 {
				v := x.eval(st, f.X)
				if !pc.iface && !wantPtr && recvIsPtr {
					// implicit deref
					pt := under(recvT).(*types.Pointer)
					if _, ok := under(pt.Elem()).(*types.Struct); ok && !isNamed(pt.Elem(), "time", "Time") {
						v = x.readStructAt(st, v.T, pt.Elem())
					} else {
						v = x.readLV(st, x.derefLV(v, pt.Elem()))
					}
				}
				pc.recv = &v
			} else {
				// promoted method through embedded fields
				var cur *LV
				if recvIsPtr {
					p := x.eval(st, f.X)
					cur = &LV{kind: lvBlank, ref: p.T, typ: recvT}
				} else {
					cur = x.lvalueOrNil(st, f.X)
					if cur == nil {
						v := x.eval(st, f.X)
						tmp := types.NewVar(token.NoPos, x.pkg.Types, "$tmp", v.Typ)
						st.env[tmp] = v
						cur = &LV{kind: lvVar, obj: tmp, typ: v.Typ}
					}
				}
				lv := x.walkFields(st, cur, recvT, path[:len(path)-1])
				et := lv.typ
				_, eIsPtr := under(et).(*types.Pointer)
				if isIface(et) {
					v := x.readLV(st, lv)
					pc.recv = &v
					pc.iface = true
				} else if wantPtr && !eIsPtr {
					pc.recvLV = lv
					r := x.interiorAddr(st, lv, f)
					rv := Val{r, types.NewPointer(et)}
					pc.recv = &rv
				} else {
					v := x.readLV(st, lv)
					if !wantPtr && eIsPtr {
						pt := under(et).(*types.Pointer)
						if _, ok := under(pt.Elem()).(*types.Struct); ok {
							v = x.readStructAt(st, v.T, pt.Elem())
						}
					}
					pc.recv = &v
				}
			}
		case types.FieldVal:
			v := x.eval(st, f)
			pc.funVal = &v
			if stt, name, _ := structOfType(x.info.TypeOf(f.X)); stt != nil && len(sel.Index()) == 1 {
				pc.fieldOf = shortTypeName(name) + "." + f.Sel.Name
			} else {
				pc.fieldOf = "." + f.Sel.Name
			}
		default:
			v := x.eval(st, f)
			pc.funVal = &v
		}
	default:
		v := x.eval(st, fun)
		pc.funVal = &v
	}
	// arguments
	sig := pc.sig
	if len(call.Args) == 1 && sig != nil && sig.Params().Len() > 1 {
		// f(g()) with multi-value g
		pc.args = x.evalN(st, call.Args[0], sig.Params().Len())
	} else {
		for i, a := range call.Args {
			v := x.eval(st, a)
			if sig != nil {
				var pt types.Type
				switch {
				case sig.Variadic() && i >= sig.Params().Len()-1:
					pt = sig.Params().At(sig.Params().Len() - 1).Type()
					if !call.Ellipsis.IsValid() {
						pt = pt.(*types.Slice).Elem()
					}
				case i < sig.Params().Len():
					pt = sig.Params().At(i).Type()
				}
				if pt != nil {
					v = x.convert(st, v, pt)
				}
			}
			pc.args = append(pc.args, v)
		}
		// pack variadic arguments
		if sig != nil && sig.Variadic() && !call.Ellipsis.IsValid() {
			np := sig.Params().Len() - 1
			vt := sig.Params().At(np).Type()
			if len(pc.args) >= np {
				extra := pc.args[np:]
				srt := x.u.SortOf(vt)
				z := x.zero(vt)
				arr := x.u.SliceArr(z.T)
				for i, a := range extra {
					arr = Store(arr, IntLit(int64(i)), a.T)
				}
				packed := Val{x.define("varargs", x.u.MkSlice(srt, IntLit(int64(len(extra))), IntLit(int64(len(extra))), arr)), vt}
				pc.args = append(append([]Val{}, pc.args[:np]...), packed)
			}
		}
	}
	return pc
}

func shortTypeName(mangled string) string {
	// mangled type names look like github_com_yandex_pandora_core_engine_instancePool
	return mangled
}

// interiorAddr returns a stable abstract address for an addressable location.
func (x *Unit) interiorAddr(st *State, lv *LV, n ast.Node) T {
	if lv != nil {
		switch lv.kind {
		case lvHeap:
			if strings.HasPrefix(lv.key, "struct:") {
				return lv.ref // an inline object is addressed by its derived reference
			}
			return x.fieldAddr(lv.key, lv.ref)
		case lvVar:
			if ref, ok := x.boxed[lv.obj]; ok {
				return ref
			}
			name := "addr_local_" + mangle(lv.obj.Name())
			x.u.DeclFun(name, "() Int")
			return T{name, SInt}
		case lvGlobal:
			if lv.obj != nil {
				name := "addr_local_" + mangle(lv.obj.Name())
				x.u.DeclFun(name, "() Int")
				return T{name, SInt}
			}
		case lvField:
			base := x.interiorAddr(st, lv.parent, n)
			return x.uf(fmt.Sprintf("addr_field_%d", lv.fidx), SInt, base)
		}
	}
	r := x.fresh("addr", SInt)
	return r
}

// ---------- invoking

func (x *Unit) invoke(st *State, pc *preparedCall, n int) []Val {
	ft := x.srcOf(pc.call.Fun)
	if x.inSpec == 0 {
		// calls(f): how many times the callee text f has been called on this path
		k := "calls:" + ft
		if _, ok := x.entry.ghost[k]; !ok {
			x.entry.ghost[k] = Val{IntLit(0), intT}
		}
		cur, ok := st.ghost[k]
		if !ok {
			cur = x.entry.ghost[k]
		}
		st.ghost[k] = Val{x.define("calls", App(SInt, "+", cur.T, IntLit(1))), intT}
	}
	res := x.invoke1(st, pc, n)
	// remember the results of the latest call of this callee text: result_of(f, i) in contracts
	if len(res) > 0 && x.inSpec == 0 {
		for i, r := range res {
			k := fmt.Sprintf("res:%s:%d", ft, i)
			if _, ok := x.entry.ghost[k]; !ok {
				x.entry.ghost[k] = Val{x.fresh("res0", r.Sort), r.Typ}
			}
			st.ghost[k] = r
		}
	}
	if x.inSpec == 0 {
		x.atReturn(st, pc, ft)
	}
	return res
}

// atReturn handles "at return NAME assume|assert EXPR": evaluated right after the call of NAME returned
// (result_of(NAME, i) are its results). Assumptions about library results are listed in the evidence.
func (x *Unit) atReturn(st *State, pc *preparedCall, funText string) {
	var b *Block
	for fr := x.fr; fr != nil && b == nil; fr = fr.parent {
		b = x.eng.blockFor(x.pkg.PkgPath, fr.loopBase)
	}
	if b == nil || live(st) == nil {
		return
	}
	for i, cl := range b.Clauses {
		if cl.Kind != "at" || cl.AtKind != "return" || cl.AtName != funText {
			continue
		}
		x.atSeen[i]++
		c := x.bodySpecCtx(st, pc.call)
		g := x.specEval(st, cl.Expr, c)
		if cl.AtAction == "assert" {
			x.oblige(st, "at", fmt.Sprintf("return %s:%s", cl.AtName, clauseLabel(cl, i)), g.T, pc.call)
		} else {
			x.note(fmt.Sprintf("assumed after the call of %s in %s: %s", cl.AtName, x.name, cl.Text))
			x.assume(st, g.T)
		}
	}
}

func (x *Unit) invoke1(st *State, pc *preparedCall, n int) []Val {
	call := pc.call
	// direct literal
	if pc.lit != nil {
		// a directly called literal with its own (non-inline) contract block is used through that contract
		if b := x.eng.blockFor(x.pkg.PkgPath, x.litKey(pc.lit)); b != nil && !b.Flags["inline"] && x.block != b {
			x.calleesUsed[x.pkg.PkgPath+"."+b.Key] = true
			x.litScope = pc.lit
			defer func() { x.litScope = nil }()
			return x.applyContract(st, b, pc, "self")
		}
		return x.inlineLit(st, pc.lit, x, pc.args, call)
	}
	if pc.funVal != nil {
		if cl, ok := x.eng.closures[pc.funVal.S]; ok {
			switch {
			case cl.lit != nil && cl.unit == x:
				return x.inlineLit(st, cl.lit, x, pc.args, call)
			case cl.fn != nil:
				pc.callee = cl.fn
				pc.funVal = nil
			case cl.method != nil:
				pc.callee = cl.method
				pc.recv = cl.recv
				pc.funVal = nil
			}
		}
	}
	if pc.funVal != nil {
		return x.invokeDynamic(st, pc, n)
	}
	callee := pc.callee
	if callee.Origin() != nil {
		callee = callee.Origin()
	}
	key, pkgPath := funcKey(callee)
	name := callee.FullName()
	// at-call clauses of the caller
	x.atCall(st, pc, callee.Name(), x.srcOf(call.Fun))
	if pc.iface && pc.recv != nil && pc.recv.Sort == SIface && x.inSpec == 0 && x.block != nil && x.block.Flags["nilsafe"] && x.inlineDepth == 0 {
		// a method call on a nil interface value panics
		if se, ok := ast.Unparen(call.Fun).(*ast.SelectorExpr); ok {
			x.oblige(st, "nil", x.srcOf(se.X), Cmp(">", IfaceTyp(pc.recv.T), IntLit(0)), se.X)
			x.assume(st, Cmp(">", IfaceTyp(pc.recv.T), IntLit(0)))
		}
	}
	if !pc.iface && pc.recv != nil && pc.recv.Sort == SInt && callee.Pkg() != nil && !strings.HasPrefix(callee.Pkg().Path(), modulePath) &&
		!strings.HasPrefix(callee.Pkg().Path(), "go.uber.org/zap") { // logging is abstracted away entirely (assumed not to panic)
		// pointer-receiver methods of library types dereference their receiver
		if _, isPtr := under(pc.recv.Typ).(*types.Pointer); isPtr {
			if se, ok := ast.Unparen(call.Fun).(*ast.SelectorExpr); ok {
				if _, exprIsPtr := under(x.info.TypeOf(se.X)).(*types.Pointer); exprIsPtr { // not for the implicit &v of an addressable value
					x.nilCheck(st, pc.recv.T, se.X)
				}
			}
		}
	}
	if pc.iface {
		recvT := pc.recv.Typ
		if b := x.eng.ifaceBlock(recvT, callee.Name()); b != nil {
			x.calleesUsed[b.Kind+" "+b.Key] = true
			return x.applyContract(st, b, pc, "self")
		}
	} else if b := x.eng.blockFor(pkgPath, key); b != nil && (b.Kind == "func" || b.Kind == "ext") {
		x.calleesUsed[pkgPath+"."+key] = true
		if b.Flags["inline"] {
			if fd := x.eng.declFor(callee); fd != nil && x.inlineDepth < 4 {
				return x.inlineDecl(st, fd, callee, pc)
			}
		}
		rn := "self"
		if fd := x.eng.declFor(callee); fd != nil && fd.decl.Recv != nil && len(fd.decl.Recv.List) == 1 && len(fd.decl.Recv.List[0].Names) == 1 {
			rn = fd.decl.Recv.List[0].Names[0].Name
		}
		return x.applyContract(st, b, pc, rn)
	}
	if res, ok := x.libCall(st, pc, name, n); ok {
		x.libUsed[name] = true
		return res
	}
	// same-package small helper without contract: inline when the engine is told to (auto-inline list)
	if x.eng.autoInline[pkgPath+"."+key] {
		if fd := x.eng.declFor(callee); fd != nil && x.inlineDepth < 4 {
			return x.inlineDecl(st, fd, callee, pc)
		}
	}
	// an unexported helper of the caller's own package that has no contract (typically a few lines extracted from a
	// function under contract) is executed in place, so that the caller's contract still speaks about what it does
	if autoInlineHelpers && !callee.Exported() && callee.Pkg() == x.pkg.Types && x.inlineDepth < 3 {
		if fd := x.eng.declFor(callee); fd != nil && fd.decl.Body != nil && !x.inlining[callee] {
			if x.inlining == nil {
				x.inlining = map[*types.Func]bool{}
			}
			x.inlining[callee] = true
			defer delete(x.inlining, callee)
			x.note("helper without a contract executed in place: " + pkgPath + "." + key)
			return x.inlineDecl(st, fd, callee, pc)
		}
	}
	return x.unknownCall(st, pc, name, n)
}

var autoInlineHelpers = os.Getenv("GOVC_NO_AUTOINLINE") == ""

func funcKey(f *types.Func) (key, pkgPath string) {
	if f.Pkg() != nil {
		pkgPath = f.Pkg().Path()
	}
	sig := f.Type().(*types.Signature)
	if r := sig.Recv(); r != nil {
		t := types.Unalias(r.Type())
		ptr := ""
		if p, ok := t.(*types.Pointer); ok {
			ptr = "*"
			t = types.Unalias(p.Elem())
		}
		tn := ""
		if n, ok := t.(*types.Named); ok {
			tn = n.Obj().Name()
		} else {
			tn = types.TypeString(t, nil)
		}
		return "(" + ptr + tn + ")." + f.Name(), pkgPath
	}
	return f.Name(), pkgPath
}

func (x *Unit) invokeDynamic(st *State, pc *preparedCall, n int) []Val {
	x.atCall(st, pc, "", x.srcOf(pc.call.Fun))
	ft := pc.funVal.Typ
	// context.CancelFunc
	if isNamed(ft, "context", "CancelFunc") || isNamed(ft, "context", "CancelCauseFunc") {
		x.libUsed["context.CancelFunc()"] = true
		ctx := x.uf("cancelctx", SIface, pc.funVal.T)
		now := x.ghostGet(st, "now")
		x.assume(st, Cmp("<=", x.uf("doneAt", SInt, ctx), now.T))
		return nil
	}
	if pc.fieldOf != "" {
		if b := x.eng.fieldFuncBlock(x.pkg.PkgPath, pc.fieldOf); b != nil {
			x.calleesUsed["fieldfunc "+b.Key] = true
			return x.applyContract(st, b, pc, "self")
		}
	}
	return x.unknownCall(st, pc, "dynamic:"+x.srcOf(pc.call.Fun), n)
}

// unknownCall: no contract. Results unconstrained (well-typed); pointees of pointer arguments havocked.
func (x *Unit) unknownCall(st *State, pc *preparedCall, name string, n int) []Val {
	x.note("uncontracted call " + name + ": results unconstrained, pointees of pointer arguments havocked, all other state assumed unchanged, assumed not to panic")
	x.envStep(st)
	hv := func(v Val) {
		if v.Typ == nil {
			return
		}
		if pt, ok := under(v.Typ).(*types.Pointer); ok {
			x.havocPointee(st, v, pt.Elem())
		}
		if _, ok := under(v.Typ).(*types.Map); ok && !x.isGhostMap(v) {
			lv := x.mapLV(v)
			nc := x.fresh("mapcontent", lv.srt)
			x.assume(st, Cmp(">=", x.u.MapLen(nc), IntLit(0)))
			x.writeLV(st, lv, Val{nc, v.Typ})
		}
	}
	if pc.recv != nil && !pc.iface {
		if _, boxed := x.boxedLV(pc.recvLV); pc.recvLV == nil || pc.recvLV.kind != lvVar || boxed {
			hv(*pc.recv) // (a plain local used through an implicit & is only the variable itself, havocked below)
		}
		if pc.recvLV != nil {
			x.writeLV(st, pc.recvLV, x.freshVal(st, "recv", pc.recvLV.typ))
		}
	}
	for i, a := range pc.args {
		hv(a)
		// &local passed to an unknown function
		if i < len(pc.call.Args) {
			if ue, ok := ast.Unparen(pc.call.Args[i]).(*ast.UnaryExpr); ok && ue.Op == token.AND {
				if lv := x.lvalueOrNil(st, ue.X); lv != nil {
					x.writeLV(st, lv, x.freshVal(st, "out", lv.typ))
				}
			}
		}
	}
	return x.freshResults(st, pc.sig, callBase(name))
}

func (x *Unit) boxedLV(lv *LV) (T, bool) {
	if lv == nil || lv.kind != lvVar || lv.obj == nil {
		return T{}, false
	}
	r, ok := x.boxed[lv.obj]
	return r, ok
}

func callBase(name string) string {
	if i := strings.LastIndexAny(name, "./)"); i >= 0 && i+1 < len(name) {
		return name[i+1:]
	}
	return name
}

func (x *Unit) freshResults(st *State, sig *types.Signature, base string) []Val {
	if sig == nil {
		return nil
	}
	var out []Val
	for i := 0; i < sig.Results().Len(); i++ {
		out = append(out, x.freshVal(st, fmt.Sprintf("%s.r%d", base, i), sig.Results().At(i).Type()))
	}
	return out
}

func (x *Unit) havocPointee(st *State, p Val, elem types.Type) {
	if isFlatStruct(elem) {
		x.havocStructAt(st, p.T, elem, 0)
		return
	}
	lv := x.derefLV(p, elem)
	x.writeLV(st, lv, Val{x.fresh("hv", lv.srt), elem})
}

func (x *Unit) havocStructAt(st *State, p T, t types.Type, depth int) {
	stt, name, _ := structOfType(types.NewPointer(t))
	for i := 0; i < stt.NumFields(); i++ {
		f := stt.Field(i)
		key := name + "." + f.Name()
		if isFlatStruct(f.Type()) {
			if depth < 4 {
				x.havocStructAt(st, x.fieldAddr(key, p), f.Type(), depth+1)
			}
			continue
		}
		srt := x.u.SortOf(f.Type())
		h := x.heapGet(st, key, ArraySort(SInt, srt))
		st.heap[key] = x.define("H_"+key, Store(h, p, x.fresh("hv_"+f.Name(), srt)))
	}
}

// ---------- inlining

func (x *Unit) inlineLit(st *State, lit *ast.FuncLit, owner *Unit, args []Val, call *ast.CallExpr) []Val {
	sig := x.info.TypeOf(lit).(*types.Signature)
	base := x.litKey(lit)
	var params []*types.Var
	for i := 0; i < sig.Params().Len(); i++ {
		params = append(params, sig.Params().At(i))
	}
	return x.inlineBody(st, sig, lit.Body, params, nil, nil, args, base, lit)
}

func (x *Unit) litKey(lit *ast.FuncLit) string {
	if k, ok := x.eng.litKeys[lit]; ok {
		return k
	}
	return "?#lit"
}

type declInfo struct {
	decl *ast.FuncDecl
	pkg  *pkgInfo
}

// inlineSite: a call that is being executed in place; contract clauses met inside the callee may name the caller's variables.
type inlineSite struct {
	pkg  *types.Package
	call ast.Node
}

func (x *Unit) inlineDecl(st *State, fd *declInfo, callee *types.Func, pc *preparedCall) []Val {
	callerPkg := x.pkg.Types
	if fd.pkg.pkg != x.pkg {
		// cross-package inlining needs the callee's type info
		saved := [2]any{x.pkg, x.info}
		x.pkg, x.info = fd.pkg.pkg, fd.pkg.pkg.TypesInfo
		defer func() { x.pkg = saved[0].(*pkgT); x.info = saved[1].(*types.Info) }()
	}
	sig := callee.Type().(*types.Signature)
	var params []*types.Var
	for i := 0; i < sig.Params().Len(); i++ {
		params = append(params, sig.Params().At(i))
	}
	key, _ := funcKey(callee)
	x.inlineDepth++
	defer func() { x.inlineDepth-- }()
	if pc.call != nil {
		x.inlineSites = append(x.inlineSites, inlineSite{callerPkg, pc.call})
		defer func() { x.inlineSites = x.inlineSites[:len(x.inlineSites)-1] }()
	}
	if pkgPathOf(callee) == x.unitPkgPath() && x.eng.blockFor(pkgPathOf(callee), key) == nil && x.fr != nil {
		// a helper without a contract continues the caller's numbering of loops: lines extracted from a function under
		// contract keep the loop clauses that were written for them
		x.shareLoops = true
	}
	return x.inlineBody(st, sig, fd.decl.Body, params, sig.Recv(), pc.recv, pc.args, key, nil)
}

func pkgPathOf(f *types.Func) string {
	if f.Pkg() == nil {
		return ""
	}
	return f.Pkg().Path()
}

func (x *Unit) unitPkgPath() string {
	if x.block != nil {
		return x.block.PkgPath
	}
	return x.pkg.PkgPath
}

func (x *Unit) inlineBody(st *State, sig *types.Signature, body *ast.BlockStmt, params []*types.Var, recvVar *types.Var, recv *Val, args []Val, loopBase string, lit *ast.FuncLit) []Val {
	fr := &frame{fnType: sig, parent: x.fr, loopBase: loopBase, loopN: new(int), deferLo: len(st.defers), lit: lit}
	if x.shareLoops {
		x.shareLoops = false
		fr.loopBase, fr.loopN = x.fr.loopBase, x.fr.loopN
	}
	for i, p := range params {
		if i < len(args) {
			st.env[p] = x.convert(st, args[i], p.Type())
		} else {
			st.env[p] = x.zero(p.Type())
		}
	}
	if recvVar != nil && recv != nil {
		st.env[recvVar] = *recv
	}
	for i := 0; i < sig.Results().Len(); i++ {
		r := sig.Results().At(i)
		var o types.Object = r
		if r.Name() == "" || r.Name() == "_" {
			o = types.NewVar(token.NoPos, x.pkg.Types, fmt.Sprintf("$ret%d", i), r.Type())
		}
		fr.results = append(fr.results, o)
		st.env[o] = x.zero(r.Type())
	}
	saved := x.fr
	x.fr = fr
	end := x.execBlock(st.clone(), body.List, newFlow())
	if end != nil {
		fr.returns = append(fr.returns, end)
	}
	ret, pan := x.finishFrame(fr)
	x.fr = saved
	if pan != nil {
		saved.panics = append(saved.panics, pan)
	}
	if ret == nil {
		st.pc = False
		return x.freshResults(st, sig, "dead")
	}
	var out []Val
	for _, o := range fr.results {
		out = append(out, ret.env[o])
		delete(ret.env, o)
	}
	*st = *ret
	return out
}

// finishFrame runs the deferred calls of fr on its return and panic exits.
// It returns the merged normal-return state and the merged still-panicking state.
func (x *Unit) finishFrame(fr *frame) (ret *State, pan *State) {
	r := x.mergeAll(fr.returns)
	p := x.mergeAll(fr.panics)
	fr.returns, fr.panics = nil, nil
	var normal []*State
	var panicking []*State
	for _, s := range []*State{r, p} {
		if s == nil {
			continue
		}
		s = x.runDefers(s, fr)
		if s == nil {
			continue
		}
		switch {
		case s.panicking.IsFalse():
			normal = append(normal, s)
		case s.panicking.IsTrue():
			panicking = append(panicking, s)
		default:
			a, b := s.clone(), s.clone()
			x.assume(a, s.panicking)
			a.panicking = True
			x.assume(b, Not(s.panicking))
			b.panicking = False
			panicking = append(panicking, a)
			normal = append(normal, b)
		}
	}
	// panics raised by deferred calls themselves
	if len(fr.panics) > 0 {
		panicking = append(panicking, fr.panics...)
		fr.panics = nil
	}
	return x.mergeAll(normal), x.mergeAll(panicking)
}

func (x *Unit) runDefers(s *State, fr *frame) *State {
	if len(s.defers) <= fr.deferLo {
		return s
	}
	ds := append([]*deferEntry(nil), s.defers[fr.deferLo:]...)
	s.defers = s.defers[:fr.deferLo]
	for i := len(ds) - 1; i >= 0; i-- {
		d := ds[i]
		if d.guard.IsFalse() {
			continue
		}
		run := s.clone()
		skip := s.clone()
		x.assume(run, d.guard)
		x.assume(skip, Not(d.guard))
		sub := &frame{fnType: fr.fnType, parent: fr, loopBase: fr.loopBase, loopN: fr.loopN, deferLo: len(run.defers), results: fr.results}
		savedFr := x.fr
		x.fr = sub
		x.inDefer++
		if d.builtin == "close" {
			x.chanClose(run, d.args[0], d.call)
		} else if d.builtin != "" {
			// reported as unsupported when the defer statement was executed
		} else if d.fnLit != nil {
			x.inlineLit(run, d.fnLit, x, d.args, d.call)
		} else {
			pc := &preparedCall{call: d.call, callee: nil, args: d.args, recv: d.recv, funVal: d.funVal}
			if f, ok := d.callee.(*types.Func); ok {
				pc.callee = f
			}
			pc.sig, _ = under(x.info.TypeOf(d.call.Fun)).(*types.Signature)
			if d.recv != nil && isIface(d.recv.Typ) {
				pc.iface = true
			}
			x.invoke(run, pc, 0)
		}
		x.inDefer--
		x.fr = savedFr
		if len(sub.panics) > 0 {
			fr.panics = append(fr.panics, sub.panics...)
		}
		if d.guard.IsTrue() {
			s = live(run)
		} else {
			s = x.merge(live(run), live(skip))
		}
		if s == nil {
			return nil
		}
	}
	return s
}

// ---------- contracts at call sites

func (x *Unit) bindNames(b *Block, pc *preparedCall, recvName string) map[string]Val {
	names := map[string]Val{}
	sig := pc.sig
	if pc.callee != nil {
		sig = pc.callee.Type().(*types.Signature)
	}
	if sig != nil {
		for i := 0; i < sig.Params().Len() && i < len(pc.args); i++ {
			p := sig.Params().At(i)
			if p.Name() != "" && p.Name() != "_" {
				names[p.Name()] = pc.args[i]
				names[p.Name()+"0"] = pc.args[i]
			}
			names[fmt.Sprintf("a%d", i)] = pc.args[i]
		}
	}
	if pc.recv != nil {
		names[recvName] = *pc.recv
		names["self"] = *pc.recv
	}
	// a parameter renamed since the contract was written is also known under the name the contract uses (lib/names.json)
	if bn, ok := x.calleeBaseNames(b); ok && sig != nil {
		for i, n := range bn.Params {
			if n == "" || n == "_" || i >= sig.Params().Len() || i >= len(pc.args) || sig.Params().At(i).Name() == n {
				continue
			}
			if _, taken := names[n]; !taken {
				names[n] = pc.args[i]
				names[n+"0"] = pc.args[i]
			}
		}
		if pc.recv != nil && bn.Recv != "" && bn.Recv != "_" {
			if _, taken := names[bn.Recv]; !taken {
				names[bn.Recv] = *pc.recv
			}
		}
	}
	x.aliasParams(pc.callee, sig, pc.args, pc.recv, names, true)
	return names
}

// calleeBaseNames: the names the callee's receiver, parameters and results had when its contract was written.
func (x *Unit) calleeBaseNames(b *Block) (baseNames, bool) {
	if b == nil || b.Kind != "func" {
		return baseNames{}, false
	}
	key := b.Key
	if i := strings.Index(key, "#lit"); i >= 0 {
		return baseNames{}, false // a literal's own parameters are not recorded
	}
	bn, ok := x.eng.baseNames[b.PkgPath+"."+key]
	return bn, ok
}

func (x *Unit) applyContract(st *State, b *Block, pc *preparedCall, recvName string) []Val {
	names := x.bindNames(b, pc, recvName)
	pkg := x.eng.typesPkg(b.PkgPath)
	if pkg == nil {
		pkg = x.pkg.Types
	}
	pre := st.clone()
	c := &specCtx{names: names, old: pre, pkg: pkg, what: b.Key}
	x.letWitness++
	savedMemo := x.witMemo
	x.witMemo = map[string]Val{}
	defer func() { x.letWitness--; x.witMemo = savedMemo }()
	if x.litScope != nil {
		// captured variables of the enclosing function are visible to the literal's contract
		c.scope = x.pkg.Types.Scope().Innermost(x.litScope.Body.Lbrace + 1)
		c.pos = x.litScope.Body.Lbrace + 1
	}
	savedSpec := st.spec
	st.spec = map[string]Val{}
	pre.spec = st.spec
	defer func() { st.spec = savedSpec }()
	for _, cl := range b.Clauses {
		if cl.Kind == "ghost" {
			st.spec[cl.GhostName] = x.specEval(pre, cl.Expr, c)
		}
	}
	for i, cl := range b.ClausesOf("requires") {
		g := x.specEval(pre, cl.Expr, c)
		ro := x.oblige(st, "requires", b.Key+":"+clauseLabel(cl, i), g.T, pc.call)
		ro.LibPre = b.Kind == "ext" // a violated precondition of a library function is a panic (Intn(0), ...)
	}
	// panics
	mp := b.ClausesOf("may_panic")
	if len(mp) > 0 {
		var conds []T
		for _, cl := range mp {
			conds = append(conds, x.specEval(pre, cl.Expr, c).T)
		}
		cond := Or(conds...)
		p := st.clone()
		x.assume(p, cond)
		if live(p) != nil {
			x.envStep(p)
			for _, cl := range b.ClausesOf("panics_ensures") {
				x.assume(p, x.specEval(p, cl.Expr, c).T)
			}
			p.panicking = True
			x.fr.panics = append(x.fr.panics, p)
		}
		// the call may also return normally (may_panic is a possibility, not a certainty)
	}
	if !b.Flags["pure"] {
		x.envStep(st)
	}
	// frame
	hasMod := b.Flags["pure"]
	for _, cl := range b.Clauses {
		if cl.Kind == "modifies" {
			hasMod = true
		}
	}
	if !hasMod && b.Kind == "func" {
		// a verified function without a modifies clause promises nothing about the frame
		x.havocAllHeap(st)
		x.havocGhosts(st)
	}
	for _, cl := range b.Clauses {
		if cl.Kind != "modifies" && cl.Kind != "havoc" {
			continue
		}
		for _, m := range cl.Mods {
			if id, ok := m.(*ast.Ident); ok && id.Name == "*" {
				x.havocAllHeap(st)
				x.havocGhosts(st)
				continue
			}
			lv := x.specLV(pre, m, c)
			if lv == nil {
				continue
			}
			x.havocLV(st, lv)
		}
	}
	// the callee may allocate
	if !b.Flags["pure"] {
		na := x.fresh("alloc", SInt)
		x.assume(st, Cmp(">=", na, st.alloc))
		st.alloc = na
	}
	// results
	sig := pc.sig
	if pc.callee != nil {
		sig = pc.callee.Type().(*types.Signature)
		if pc.sig != nil && pc.sig.Results().Len() == sig.Results().Len() {
			sig = mergeSigNames(pc.sig, sig)
		}
	}
	var results []Val
	if b.Flags["pure"] && sig != nil && sig.Results().Len() > 0 {
		var as []T
		if pc.funVal != nil {
			as = append(as, pc.funVal.T)
		}
		if pc.recv != nil {
			as = append(as, pc.recv.T)
		}
		for _, a := range pc.args {
			as = append(as, a.T)
		}
		for i := 0; i < sig.Results().Len(); i++ {
			rt := sig.Results().At(i).Type()
			srt := x.u.SortOf(rt)
			name := fmt.Sprintf("pure_%s_%d", mangle(b.PkgPath+"."+b.Key), i)
			if pc.funVal != nil && i == 0 {
				name = applyName(as, srt)
			}
			var r T
			if len(as) == 0 {
				x.u.DeclFun(name, "() "+string(srt))
				r = T{name, srt}
			} else {
				r = x.uf(name, srt, as...)
			}
			v := Val{r, rt}
			x.assume(st, x.typeInv(st, v, 0))
			results = append(results, v)
		}
	} else {
		results = x.freshResults(st, sig, callBase(b.Key))
	}
	if sig != nil {
		for i := 0; i < sig.Results().Len() && i < len(results); i++ {
			r := sig.Results().At(i)
			if r.Name() != "" && r.Name() != "_" {
				names[r.Name()] = results[i]
			}
			names[fmt.Sprintf("result%d", i)] = results[i]
		}
		if len(results) >= 1 {
			names["result"] = results[0]
		}
		// a named result renamed since the contract was written is also known under the name the contract uses
		if bn, ok := x.calleeBaseNames(b); ok {
			for i, n := range bn.Results {
				if n == "" || n == "_" || i >= sig.Results().Len() || i >= len(results) || sig.Results().At(i).Name() == n {
					continue
				}
				if _, taken := names[n]; !taken {
					names[n] = results[i]
				}
			}
		}
	}
	if b.Flags["fresh"] && len(results) > 0 {
		// result is a newly allocated reference
		r := x.alloc(st)
		x.assume(st, Eq(results[0].T, r))
	}
	for _, cl := range b.ClausesOf("let") {
		x.letWitness++
		v := x.specEval(st, cl.Expr, c)
		x.letWitness--
		names[cl.GhostName] = v
		k := fmt.Sprintf("let:%s:%s", x.srcOf(pc.call.Fun), cl.GhostName)
		if _, ok := x.entry.ghost[k]; !ok {
			x.entry.ghost[k] = Val{x.fresh("let0", v.Sort), v.Typ}
		}
		st.ghost[k] = v
	}
	nens := 0
	for _, cl := range b.ClausesOf("ensures") {
		// a postcondition that talks about the callee's local variables says nothing a caller can use: it is proved in the
		// callee and not assumed here (assuming less is sound)
		nerr := len(x.specErrors)
		g := x.specEval(st, cl.Expr, c).T
		if len(x.specErrors) > nerr {
			onlyLocals := false
			for _, m := range x.specErrors[nerr:] {
				if strings.Contains(m, "unknown name") {
					onlyLocals = true
				}
			}
			if onlyLocals {
				x.specErrors = x.specErrors[:nerr]
				x.note("postconditions over callee locals are not assumed at call sites: " + b.Key + " " + clauseLabel(cl, nens))
				continue
			}
		}
		x.assume(st, g)
		nens++
	}
	if nens > 0 && x.dry == 0 && x.inlineDepth == 0 && x.inDefer == 0 {
		// the assumed postcondition must not make the continuation unreachable
		o := x.oblige(st, "canary", "returns:"+b.Key, False, pc.call)
		o.WantSat = true
		o.Kind = "canary"
	}
	return results
}

func mergeSigNames(callSig, declSig *types.Signature) *types.Signature {
	// result names from the declaration, (instantiated) types from the call site
	var vars []*types.Var
	for i := 0; i < callSig.Results().Len(); i++ {
		vars = append(vars, types.NewVar(token.NoPos, nil, declSig.Results().At(i).Name(), callSig.Results().At(i).Type()))
	}
	return types.NewSignatureType(nil, nil, nil, declSig.Params(), types.NewTuple(vars...), declSig.Variadic())
}

func (x *Unit) havocLV(st *State, lv *LV) {
	cur := x.readLV(st, lv)
	v := Val{x.fresh("mod", cur.Sort), lv.typ}
	x.writeLV(st, lv, v)
	nv := x.readLV(st, lv)
	x.assume(st, x.typeInv(st, nv, 0))
}

// atCall handles "at call NAME[#k] assert|assume EXPR" clauses of the current unit's block.
func (x *Unit) atCall(st *State, pc *preparedCall, shortName, funText string) {
	// the clauses of the innermost enclosing function (or literal) that has a contract block: code of literals
	// without a block of their own (deferred closures, callbacks run inline) belongs to the enclosing function
	var b *Block
	base := x.fr.loopBase
	for fr := x.fr; fr != nil && b == nil; fr = fr.parent {
		base = fr.loopBase
		b = x.eng.blockFor(x.pkg.PkgPath, fr.loopBase)
	}
	if b == nil {
		return
	}
	var matched []int
	for i, cl := range b.Clauses {
		if cl.Kind != "at" || cl.AtKind != "call" {
			continue
		}
		if cl.AtName != funText && cl.AtName != shortName {
			continue
		}
		matched = append(matched, i)
	}
	if len(matched) == 0 {
		return
	}
	ordKey := base + "|" + funText
	ord := x.callOrd[ordKey]
	x.callOrd[ordKey] = ord + 1
	names := map[string]Val{}
	args := map[string]Val{}
	sig := pc.sig
	if pc.callee != nil {
		sig = pc.callee.Type().(*types.Signature)
	}
	if sig != nil {
		for i := 0; i < sig.Params().Len() && i < len(pc.args); i++ {
			args[sig.Params().At(i).Name()] = pc.args[i]
			args[fmt.Sprintf("a%d", i)] = pc.args[i]
		}
	}
	if pc.recv != nil {
		args["self"] = *pc.recv
		args["recv"] = *pc.recv
	}
	x.aliasParams(pc.callee, sig, pc.args, nil, args, false)
	for _, i := range matched {
		cl := b.Clauses[i]
		if cl.AtOrd >= 0 && cl.AtOrd != ord {
			continue
		}
		x.atSeen[i]++
		c := x.bodySpecCtx(st, pc.call)
		for k, v := range names {
			c.names[k] = v
		}
		c.args = args
		if cl.AtAction == "havoc" {
			x.note(fmt.Sprintf("interference at call %s in %s: %s may have been changed by other goroutines (havocked)", cl.AtName, x.name, cl.Text))
			for _, m := range cl.Mods {
				if lv := x.specLV(st, m, c); lv != nil {
					x.havocLV(st, lv)
				}
			}
			continue
		}
		g := x.specEval(st, cl.Expr, c)
		if cl.AtAction == "assert" {
			x.oblige(st, "at", fmt.Sprintf("call %s:%s", cl.AtName, clauseLabel(cl, i)), g.T, pc.call)
		} else {
			x.note(fmt.Sprintf("assumed at call %s in %s: %s", cl.AtName, x.name, cl.Text))
			x.assume(st, g.T)
		}
	}
}

// bodySpecCtx: naming environment for contract expressions evaluated inside the body
// (loop invariants, at-clauses): program locals in scope at n are visible.
func (x *Unit) bodySpecCtx(st *State, n ast.Node) *specCtx {
	c := &specCtx{names: map[string]Val{}, old: x.entry, pkg: x.pkg.Types}
	if n != nil {
		c.scope = x.pkg.Types.Scope().Innermost(n.Pos())
		c.pos = n.End()
		if fs, ok := n.(*ast.ForStmt); ok {
			c.scope = x.pkg.Types.Scope().Innermost(fs.Body.Lbrace + 1)
			c.pos = fs.Body.Lbrace + 1
		}
		if rs, ok := n.(*ast.RangeStmt); ok {
			c.scope = x.pkg.Types.Scope().Innermost(rs.Body.Lbrace + 1)
			c.pos = rs.Body.Lbrace + 1
		}
	}
	for k, v := range x.unitNames {
		c.names[k] = v
	}
	return c
}

// havocGhosts forgets every declared ghost global (event counters, ghost maps); the clock only moves forward.
func (x *Unit) havocGhosts(st *State) {
	for _, name := range sortedKeys(x.eng.ghostDecls) {
		if name == "now" || name == "lockReleased" {
			continue // lockReleased: what this very call has released, nothing a callee changes
		}
		g := x.ghostGet(st, name)
		st.ghost[name] = Val{x.fresh("G_"+name, g.Sort), g.Typ}
	}
}
