package main

// Replay of a failed obligation on the real code.
//
// For a function whose inputs can be rebuilt from a solver model (scalars, strings, slices of scalars or strings, a
// receiver struct with such fields) the model is projected onto the inputs, a small in-package test that calls the REAL
// function with those inputs is generated, injected with `go test -overlay` (nothing is written into the repository) and
// run. A safety obligation (index, slice, make, division, nil map, type assertion, nil dereference, library
// precondition, panic freedom) is confirmed when the call panics; an `ensures` clause written with plain Go operators
// over parameters and results is confirmed when its Go translation evaluates to false on the values returned.
// Anything else (ghost state, result_of/calls, interfaces, literals) is not replayed: the violation is then reported
// with no-failing-input-found.

import (
	"context"
	"encoding/json"
	"fmt"
	"go/ast"
	"go/token"
	"go/types"
	"os"
	"os/exec"
	"path/filepath"
	"strconv"
	"strings"
	"time"
)

type replayResult struct {
	Confirmed bool   `json:"confirmed"`
	Reason    string `json:"reason"`
	Test      string `json:"test_source,omitempty"`
	Cmd       string `json:"command,omitempty"`
	Output    string `json:"output,omitempty"`
	Inputs    string `json:"inputs,omitempty"`
}

// sexpr is a parsed S-expression.
type sexpr struct {
	atom string
	list []*sexpr
}

func parseSexprs(s string) []*sexpr {
	var toks []string
	for i := 0; i < len(s); {
		c := s[i]
		switch {
		case c == '(' || c == ')':
			toks = append(toks, string(c))
			i++
		case c == ' ' || c == '\n' || c == '\t' || c == '\r':
			i++
		case c == '|':
			j := strings.IndexByte(s[i+1:], '|')
			if j < 0 {
				j = len(s) - i - 1
			}
			toks = append(toks, s[i:i+j+2])
			i += j + 2
		case c == '"':
			j := i + 1
			for j < len(s) && s[j] != '"' {
				j++
			}
			toks = append(toks, s[i:min(j+1, len(s))])
			i = j + 1
		default:
			j := i
			for j < len(s) && !strings.ContainsRune("() \n\t\r", rune(s[j])) {
				j++
			}
			toks = append(toks, s[i:j])
			i = j
		}
	}
	pos := 0
	var parse func() *sexpr
	parse = func() *sexpr {
		if pos >= len(toks) {
			return nil
		}
		t := toks[pos]
		pos++
		if t == "(" {
			e := &sexpr{}
			for pos < len(toks) && toks[pos] != ")" {
				if c := parse(); c != nil {
					e.list = append(e.list, c)
				}
			}
			pos++
			if e.list == nil {
				e.list = []*sexpr{}
			}
			return e
		}
		if t == ")" {
			return nil
		}
		return &sexpr{atom: t}
	}
	var out []*sexpr
	for pos < len(toks) {
		if e := parse(); e != nil {
			out = append(out, e)
		}
	}
	return out
}

func (e *sexpr) String() string {
	if e.list == nil {
		return e.atom
	}
	var ps []string
	for _, c := range e.list {
		ps = append(ps, c.String())
	}
	return "(" + strings.Join(ps, " ") + ")"
}

// intOf reads an SMT integer value: 5 or (- 5).
func (e *sexpr) intOf() (int64, bool) {
	if e.list == nil {
		v, err := strconv.ParseInt(e.atom, 10, 64)
		return v, err == nil
	}
	if len(e.list) == 2 && e.list[0].atom == "-" {
		v, ok := e.list[1].intOf()
		return -v, ok
	}
	return 0, false
}

// realOf renders an SMT real value as a Go float expression.
func (e *sexpr) realOf() (string, bool) {
	if e.list == nil {
		if _, err := strconv.ParseFloat(e.atom, 64); err == nil {
			return e.atom, true
		}
		return "", false
	}
	if len(e.list) == 2 && e.list[0].atom == "-" {
		v, ok := e.list[1].realOf()
		return "-(" + v + ")", ok
	}
	if len(e.list) == 3 && e.list[0].atom == "/" {
		a, ok1 := e.list[1].realOf()
		b, ok2 := e.list[2].realOf()
		return "(" + a + ")/(" + b + ")", ok1 && ok2
	}
	return "", false
}

// modelQuery asks z3 for a model of the obligation's negation (quantified background dropped) with extra pins,
// and returns the values of the given terms.
func modelQuery(o *Obligation, dir string, pins, terms []string) (map[string]*sexpr, bool) {
	script := o.Script(true)
	if i := strings.LastIndex(script, "(check-sat)"); i >= 0 {
		script = script[:i]
	}
	var b strings.Builder
	b.WriteString(script)
	for _, p := range pins {
		b.WriteString("(assert " + p + ")\n")
	}
	b.WriteString("(check-sat)\n")
	if len(terms) > 0 {
		b.WriteString("(get-value (" + strings.Join(terms, " ") + "))\n")
	}
	f := filepath.Join(dir, sanitizeFile(o.Name)+".replayq.smt2")
	if os.WriteFile(f, []byte(b.String()), 0o644) != nil {
		return nil, false
	}
	defer os.Remove(f)
	r := runSolver(context.Background(), solvers[0], f, 8*time.Second)
	if r.Status != "sat" {
		return nil, false
	}
	out := map[string]*sexpr{}
	for _, top := range parseSexprs(r.Model) {
		for _, pair := range top.list {
			if len(pair.list) == 2 {
				out[pair.list[0].String()] = pair.list[1]
			}
		}
	}
	return out, true
}

// replayInput describes how one input of the function is rebuilt.
type replayInput struct {
	name string     // Go variable name in the test
	typ  types.Type // declared type
	term string     // SMT term of the value
	expr string     // Go expression, once known
}

type replayer struct {
	x       *Unit
	o       *Obligation
	dir     string
	imports map[string]string // path -> name
	pins    []string
	decls   []string // top-level declarations of the generated test (interface stubs)
	maxStr  int64
}

func (r *replayer) qualifier(p *types.Package) string {
	if p == r.x.pkg.Types {
		return ""
	}
	r.imports[p.Path()] = p.Name()
	return p.Name()
}

func (r *replayer) typeStr(t types.Type) string { return types.TypeString(t, r.qualifier) }

func basicKind(t types.Type) (types.BasicInfo, bool) {
	b, ok := under(t).(*types.Basic)
	if !ok {
		return 0, false
	}
	return b.Info(), true
}

// valueExpr builds a Go expression of type t for SMT term `term` (whose sort follows govc's encoding).
func (r *replayer) valueExpr(t types.Type, term string, depth int) (string, bool) {
	if depth > 2 {
		return "", false
	}
	if isNamed(t, "time", "Time") {
		return "", false
	}
	if info, ok := basicKind(t); ok {
		m, ok := modelQuery(r.o, r.dir, r.pins, []string{term})
		switch {
		case info&types.IsBoolean != 0:
			if !ok || m[term] == nil {
				return "", false
			}
			r.pins = append(r.pins, fmt.Sprintf("(= %s %s)", term, m[term].String()))
			return m[term].atom, m[term].atom == "true" || m[term].atom == "false"
		case info&types.IsInteger != 0:
			if !ok || m[term] == nil {
				return "", false
			}
			v, ok := m[term].intOf()
			if !ok {
				return "", false
			}
			r.pins = append(r.pins, fmt.Sprintf("(= %s %s)", term, m[term].String()))
			if info&types.IsUnsigned != 0 && v < 0 {
				return "", false
			}
			return fmt.Sprintf("%s(%d)", r.typeStr(t), v), true
		case info&types.IsFloat != 0:
			if !ok || m[term] == nil {
				return "", false
			}
			v, ok := m[term].realOf()
			if !ok {
				return "", false
			}
			r.pins = append(r.pins, fmt.Sprintf("(= %s %s)", term, m[term].String()))
			return fmt.Sprintf("%s(%s)", r.typeStr(t), v), true
		case info&types.IsString != 0:
			ln := fmt.Sprintf("(gs.len %s)", term)
			m, ok := modelQuery(r.o, r.dir, append(append([]string{}, r.pins...), fmt.Sprintf("(and (>= %s 0) (<= %s %d))", ln, ln, r.maxStr)), []string{ln})
			if !ok || m[ln] == nil {
				return "", false
			}
			n, ok := m[ln].intOf()
			if !ok || n < 0 || n > 48 {
				return "", false
			}
			r.pins = append(r.pins, fmt.Sprintf("(= %s %d)", ln, n))
			var chars []string
			for i := int64(0); i < n; i++ {
				c := fmt.Sprintf("(gs.at %s %d)", term, i)
				chars = append(chars, c)
				r.pins = append(r.pins, fmt.Sprintf("(and (>= %s 32) (<= %s 126))", c, c)) // printable: most parsers care about these
			}
			bs := make([]byte, n)
			if n > 0 {
				m, ok := modelQuery(r.o, r.dir, r.pins, chars)
				if !ok {
					// retry without the printable restriction
					r.pins = r.pins[:len(r.pins)-int(n)]
					for _, c := range chars {
						r.pins = append(r.pins, fmt.Sprintf("(and (>= %s 0) (<= %s 255))", c, c))
					}
					m, ok = modelQuery(r.o, r.dir, r.pins, chars)
					if !ok {
						return "", false
					}
				}
				for i, c := range chars {
					v, ok := m[c].intOf()
					if !ok || v < 0 || v > 255 {
						return "", false
					}
					bs[i] = byte(v)
					r.pins = append(r.pins, fmt.Sprintf("(= %s %d)", c, v))
				}
			}
			e := strconv.Quote(string(bs))
			if r.typeStr(t) != "string" {
				e = r.typeStr(t) + "(" + e + ")"
			}
			return e, true
		}
		return "", false
	}
	if it, ok := under(t).(*types.Interface); ok && depth == 0 {
		// an interface-typed input: the model cannot describe an object, so a stub is generated whose methods return
		// zero values and never panic (a fault in the replay is then the fault of the function under test)
		if isNamed(t, "context", "Context") {
			r.imports["context"] = "context"
			return "context.Background()", true
		}
		if it.NumMethods() == 0 {
			return "nil", true
		}
		name := fmt.Sprintf("verifStub%d", len(r.decls))
		var b strings.Builder
		fmt.Fprintf(&b, "type %s struct{}\n", name)
		for i := 0; i < it.NumMethods(); i++ {
			m := it.Method(i)
			if !m.Exported() && m.Pkg() != r.x.pkg.Types {
				return "", false
			}
			sig := m.Type().(*types.Signature)
			var ps, rs, zs, rets []string
			for j := 0; j < sig.Params().Len(); j++ {
				pt := r.typeStr(sig.Params().At(j).Type())
				if sig.Variadic() && j == sig.Params().Len()-1 {
					pt = "..." + strings.TrimPrefix(pt, "[]")
				}
				ps = append(ps, fmt.Sprintf("_ %s", pt))
			}
			for j := 0; j < sig.Results().Len(); j++ {
				rt := r.typeStr(sig.Results().At(j).Type())
				rs = append(rs, rt)
				zs = append(zs, fmt.Sprintf("var z%d %s", j, rt))
				rets = append(rets, fmt.Sprintf("z%d", j))
			}
			fmt.Fprintf(&b, "func (%s) %s(%s) (%s) { %s; return %s }\n", name, m.Name(), strings.Join(ps, ", "), strings.Join(rs, ", "), strings.Join(zs, "; "), strings.Join(rets, ", "))
		}
		r.decls = append(r.decls, b.String())
		return name + "{}", true
	}
	if sl, ok := under(t).(*types.Slice); ok {
		srt := r.x.u.SortOf(t)
		ln := fmt.Sprintf("(len-%s %s)", srt, term)
		m, ok := modelQuery(r.o, r.dir, append(append([]string{}, r.pins...), fmt.Sprintf("(and (>= %s 0) (<= %s 12))", ln, ln)), []string{ln})
		if !ok || m[ln] == nil {
			return "", false
		}
		n, ok := m[ln].intOf()
		if !ok || n < 0 || n > 12 {
			return "", false
		}
		r.pins = append(r.pins, fmt.Sprintf("(= %s %d)", ln, n))
		var elems []string
		for i := int64(0); i < n; i++ {
			e, ok := r.valueExpr(sl.Elem(), fmt.Sprintf("(select (arr-%s %s) %d)", srt, term, i), depth+1)
			if !ok {
				return "", false
			}
			elems = append(elems, e)
		}
		return r.typeStr(t) + "{" + strings.Join(elems, ", ") + "}", true
	}
	return "", false
}

// panicKinds: obligations that stand for "this statement does not panic".
var panicKinds = map[string]bool{"index": true, "slice": true, "make": true, "div": true, "nilmap": true, "typeassert": true,
	"nil": true, "nopanic": true, "close": true, "requires": true}

// replayObligation tries to confirm a failed obligation on the real code; a candidate that does not reproduce the
// failure (the solver is free where the code is abstracted, e.g. in what strconv.Atoi accepts) is followed by up to two
// more candidates with shorter strings.
func replayObligation(o *Obligation, repo, dir string) *replayResult {
	var last *replayResult
	var tried []string
	for attempt := 0; attempt < 3; attempt++ {
		res := replayOnce(o, repo, dir, attempt)
		if res.Inputs != "" {
			tried = append(tried, res.Inputs)
		}
		if res.Confirmed {
			return res
		}
		if res.Test == "" {
			if last == nil {
				return res
			}
			continue
		}
		last = res
	}
	if last != nil && len(tried) > 1 {
		last.Reason += fmt.Sprintf(" (%d candidates tried)", len(tried))
	}
	return last
}

func replayOnce(o *Obligation, repo, dir string, attempt int) *replayResult {
	x := o.Unit
	res := &replayResult{}
	if x == nil || x.decl == nil || x.lit != nil || x.sig == nil {
		res.Reason = "not a declared function (literals and lemmas are not replayed)"
		return res
	}
	isPanicKind := panicKinds[o.Kind]
	if o.Kind == "requires" && !o.LibPre {
		// a violated precondition of a contracted function of this repository is not a fault by itself
		isPanicKind = false
	}
	var clause ast.Expr
	if o.Kind == "ensures" {
		for i, cl := range x.block.ClausesOf("ensures") {
			if strings.HasSuffix(o.Name, ":ensures["+clauseLabel(cl, i)+"]") {
				clause = cl.Expr
			}
		}
	}
	if !isPanicKind && clause == nil {
		res.Reason = "obligation kind " + o.Kind + " is not replayed (only safety obligations and plain ensures clauses are)"
		return res
	}
	r := &replayer{x: x, o: o, dir: dir, imports: map[string]string{"fmt": "fmt", "testing": "testing"}, maxStr: 48}
	if attempt > 0 {
		r.maxStr = int64(3 - attempt) // 2, then 1: short strings are the ones the abstracted parsers agree with reality on
	}
	var lines []string
	var argNames []string
	names := map[string]string{} // contract name -> Go expression in the test
	// receiver
	callee := x.decl.Name.Name
	if rv := x.sig.Recv(); rv != nil {
		pt, isPtr := under(rv.Type()).(*types.Pointer)
		var st *types.Struct
		var elemT types.Type = rv.Type()
		if isPtr {
			elemT = pt.Elem()
		}
		st, _ = under(elemT).(*types.Struct)
		if st == nil {
			res.Reason = "receiver is not a struct"
			return res
		}
		recvVal, ok := x.entry.env[rv]
		if !ok {
			res.Reason = "receiver value not found"
			return res
		}
		var fields []string
		if isPtr {
			_, tname, _ := structOfType(rv.Type())
			for i := 0; i < st.NumFields(); i++ {
				f := st.Field(i)
				if _, ok := basicKind(f.Type()); !ok {
					if _, isSl := under(f.Type()).(*types.Slice); !isSl {
						continue
					}
				}
				h, have := x.entry.epoch.memo[tname+"."+f.Name()]
				if !have {
					continue // never read: any value will do
				}
				e, ok := r.valueExpr(f.Type(), fmt.Sprintf("(select %s %s)", h.S, recvVal.S), 0)
				if !ok {
					continue
				}
				fields = append(fields, fmt.Sprintf("%s: %s", f.Name(), e))
			}
			lines = append(lines, fmt.Sprintf("recv := &%s{%s}", r.typeStr(elemT), strings.Join(fields, ", ")))
		} else {
			for i := 0; i < st.NumFields(); i++ {
				f := st.Field(i)
				if _, ok := basicKind(f.Type()); !ok {
					continue
				}
				e, ok := r.valueExpr(f.Type(), r.x.u.StructField(recvVal.T, i).S, 0)
				if !ok {
					continue
				}
				fields = append(fields, fmt.Sprintf("%s: %s", f.Name(), e))
			}
			lines = append(lines, fmt.Sprintf("recv := %s{%s}", r.typeStr(elemT), strings.Join(fields, ", ")))
		}
		callee = "recv." + callee
		if rv.Name() != "" && rv.Name() != "_" {
			names[rv.Name()] = "recv"
		}
	}
	// parameters
	for i := 0; i < x.sig.Params().Len(); i++ {
		p := x.sig.Params().At(i)
		v, ok := x.entry.env[p]
		if !ok {
			res.Reason = "parameter value not found: " + p.Name()
			return res
		}
		pt := p.Type()
		if x.sig.Variadic() && i == x.sig.Params().Len()-1 {
			// passed as a slice with ...
		}
		e, ok := r.valueExpr(pt, v.S, 0)
		if !ok {
			res.Reason = fmt.Sprintf("parameter %s of type %s cannot be rebuilt from a model", p.Name(), pt)
			return res
		}
		an := fmt.Sprintf("a%d", i)
		lines = append(lines, fmt.Sprintf("%s := %s", an, e))
		if x.sig.Variadic() && i == x.sig.Params().Len()-1 {
			argNames = append(argNames, an+"...")
		} else {
			argNames = append(argNames, an)
		}
		if p.Name() != "" && p.Name() != "_" {
			names[p.Name()+"0"] = an
			names[p.Name()] = an // sound for `ensures` only when the body does not reassign the parameter; checked below
		}
	}
	// results
	var resNames []string
	for i := 0; i < x.sig.Results().Len(); i++ {
		rn := fmt.Sprintf("r%d", i)
		resNames = append(resNames, rn)
		names[fmt.Sprintf("result%d", i)] = rn
		if i == 0 {
			names["result"] = rn
		}
		if n := x.sig.Results().At(i).Name(); n != "" && n != "_" {
			names[n] = rn
		}
	}
	call := fmt.Sprintf("%s(%s)", callee, strings.Join(argNames, ", "))
	if len(resNames) > 0 {
		call = strings.Join(resNames, ", ") + " := " + call
	}
	lines = append(lines, call)
	for _, rn := range resNames {
		lines = append(lines, "_ = "+rn)
	}
	lines = append(lines, `fmt.Println("VERIF-REPLAY returned")`)
	if clause != nil {
		if reassignsParams(x) {
			res.Reason = "the function assigns its parameters: the ensures clause is not replayed"
			return res
		}
		g, ok := specToGo(clause, names)
		if !ok {
			res.Reason = "the ensures clause uses contract-only notions (ghost state, result_of, calls, quantifiers): not replayed"
			return res
		}
		lines = append(lines, fmt.Sprintf("if !(%s) {\n\t\tfmt.Println(\"VERIF-REPLAY clause-violated\")\n\t} else {\n\t\tfmt.Println(\"VERIF-REPLAY clause-holds\")\n\t}", g))
	}
	var imps []string
	for p, n := range r.imports {
		if filepath.Base(p) == n {
			imps = append(imps, strconv.Quote(p))
		} else {
			imps = append(imps, n+" "+strconv.Quote(p))
		}
	}
	src := fmt.Sprintf("package %s\n\nimport (\n\t%s\n)\n\n"+strings.ReplaceAll(strings.Join(r.decls, "\n"), "%%", "%%%%")+"\n// generated by govc: replay of obligation %s\nfunc TestVerifReplay(t *testing.T) {\n\tdefer func() {\n\t\tif r := recover(); r != nil {\n\t\t\tfmt.Printf(\"VERIF-REPLAY panic: %%v\\n\", r)\n\t\t}\n\t}()\n\t%s\n}\n",
		x.pkg.Types.Name(), strings.Join(imps, "\n\t"), o.Name, strings.Join(lines, "\n\t"))
	res.Test = src
	res.Inputs = strings.Join(lines[:len(lines)-1], "; ")
	// run it on the real code through an overlay
	pkgDir := filepath.Dir(x.pkg.Fset.Position(x.decl.Pos()).Filename)
	testFile := filepath.Join(dir, sanitizeFile(o.Name)+".replay_test.go")
	if err := os.WriteFile(testFile, []byte(src), 0o644); err != nil {
		res.Reason = err.Error()
		return res
	}
	ov := map[string]map[string]string{"Replace": {filepath.Join(pkgDir, "zz_verif_replay_test.go"): testFile}}
	ovb, _ := json.Marshal(ov)
	ovFile := filepath.Join(dir, sanitizeFile(o.Name)+".overlay.json")
	os.WriteFile(ovFile, ovb, 0o644)
	rel, _ := filepath.Rel(repo, pkgDir)
	ctx, cancel := context.WithTimeout(context.Background(), 150*time.Second)
	defer cancel()
	cmd := exec.CommandContext(ctx, "go", "test", "-overlay", ovFile, "-vet=off", "-count=1", "-timeout", "60s", "-run", "^TestVerifReplay$", "-v", "./"+filepath.ToSlash(rel)+"/")
	cmd.Dir = repo
	cmd.Env = append(os.Environ(), "GOFLAGS=-mod=mod", "GOPROXY=off", "GOSUMDB=off", "GOTOOLCHAIN=local")
	out, _ := cmd.CombinedOutput()
	res.Cmd = "cd " + repo + " && " + strings.Join(cmd.Args, " ")
	res.Output = truncate(string(out), 3000)
	switch {
	case isPanicKind && strings.Contains(string(out), "VERIF-REPLAY panic"):
		res.Confirmed = true
		res.Reason = "the real function panics on the inputs of the counterexample"
	case clause != nil && strings.Contains(string(out), "VERIF-REPLAY clause-violated"):
		res.Confirmed = true
		res.Reason = "the real function returns values that violate the clause on the inputs of the counterexample"
	case clause != nil && strings.Contains(string(out), "VERIF-REPLAY panic") && len(x.block.ClausesOf("may_panic")) == 0:
		res.Confirmed = true
		res.Reason = "the real function panics on the inputs of the counterexample"
	default:
		res.Reason = "the candidate inputs did not reproduce the failure on the real code (the model may rely on an abstraction)"
	}
	return res
}

// reassignsParams: does the body assign any parameter (then `p` in an ensures clause is not the entry value)?
func reassignsParams(x *Unit) bool {
	params := map[types.Object]bool{}
	for i := 0; i < x.sig.Params().Len(); i++ {
		params[x.sig.Params().At(i)] = true
	}
	found := false
	ast.Inspect(x.decl.Body, func(n ast.Node) bool {
		if as, ok := n.(*ast.AssignStmt); ok {
			for _, l := range as.Lhs {
				if id, ok := l.(*ast.Ident); ok && params[x.info.ObjectOf(id)] {
					found = true
				}
			}
		}
		if ids, ok := n.(*ast.IncDecStmt); ok {
			if id, ok := ids.X.(*ast.Ident); ok && params[x.info.ObjectOf(id)] {
				found = true
			}
		}
		return !found
	})
	return found
}

// specToGo translates a contract expression made of Go operators, imp/iff/ite/len/min/max/abs/old over the given
// names into Go source. ok=false when the expression needs anything else.
func specToGo(e ast.Expr, names map[string]string) (string, bool) {
	switch e := e.(type) {
	case *ast.ParenExpr:
		s, ok := specToGo(e.X, names)
		return "(" + s + ")", ok
	case *ast.BasicLit:
		return e.Value, true
	case *ast.Ident:
		switch e.Name {
		case "true", "false", "nil":
			return e.Name, true
		}
		if g, ok := names[e.Name]; ok {
			return g, true
		}
		return "", false
	case *ast.UnaryExpr:
		s, ok := specToGo(e.X, names)
		return e.Op.String() + "(" + s + ")", ok && (e.Op == token.NOT || e.Op == token.SUB)
	case *ast.BinaryExpr:
		a, ok1 := specToGo(e.X, names)
		b, ok2 := specToGo(e.Y, names)
		return "(" + a + " " + e.Op.String() + " " + b + ")", ok1 && ok2
	case *ast.IndexExpr:
		a, ok1 := specToGo(e.X, names)
		b, ok2 := specToGo(e.Index, names)
		return a + "[" + b + "]", ok1 && ok2
	case *ast.CallExpr:
		id, ok := e.Fun.(*ast.Ident)
		if !ok {
			return "", false
		}
		var args []string
		for _, a := range e.Args {
			s, ok := specToGo(a, names)
			if !ok {
				return "", false
			}
			args = append(args, s)
		}
		switch id.Name {
		case "imp":
			return "(!(" + args[0] + ") || (" + args[1] + "))", len(args) == 2
		case "iff":
			return "((" + args[0] + ") == (" + args[1] + "))", len(args) == 2
		case "ite":
			return "func() any { if " + args[0] + " { return " + args[1] + " }; return " + args[2] + " }()", false // typed ite is not expressible generically
		case "len", "min", "max":
			return id.Name + "(" + strings.Join(args, ", ") + ")", true
		case "old":
			// old(p) for a parameter p is its entry value
			if pid, ok := e.Args[0].(*ast.Ident); ok {
				if g, ok := names[pid.Name+"0"]; ok {
					return g, true
				}
			}
			return "", false
		}
		return "", false
	}
	return "", false
}
