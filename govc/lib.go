package main

import (
	"fmt"
	"go/ast"
	"go/token"
	"go/types"
	"strings"
)

// ---------- ghost environment: clock, contexts, channels

// envStep lets time pass: the ghost clock moves forward (contexts may become done, timers may fire).
func (x *Unit) envStep(st *State) {
	now := x.ghostGet(st, "now")
	n := x.fresh("now", SInt)
	x.assume(st, Cmp(">=", n, now.T))
	st.ghost["now"] = Val{n, intT}
}

// ctxDone: done(ctx) at the current instant.
func (x *Unit) ctxDone(st *State, ctx T) T {
	now := x.ghostGet(st, "now")
	return Cmp("<=", x.uf("doneAt", SInt, ctx), now.T)
}

func (x *Unit) bumpEvent(st *State, name string) {
	k := "ev_" + name
	v := x.ghostGet(st, k)
	st.ghost[k] = Val{x.define(k, App(SInt, "+", v.T, IntLit(1))), intT}
}

// channel kinds: 1 = ctx.Done() channel, 2 = timer channel
func (x *Unit) recvEnabled(st *State, ch Val) (T, bool) {
	kind := x.uf("chkind", SInt, ch.T)
	now := x.ghostGet(st, "now")
	doneCase := Cmp("<=", x.uf("doneAt", SInt, x.uf("chctx", SIface, ch.T)), now.T)
	dl := x.ghostGet(st, "timerDeadline")
	timerCase := Cmp(">=", now.T, Select(x.u.MapVal(dl.T), x.uf("chtimer", SInt, ch.T)))
	free := x.fresh("ready", SBool)
	en := Ite(Eq(kind, IntLit(1)), doneCase, Ite(Eq(kind, IntLit(2)), timerCase, free))
	// a nil channel is never ready
	return x.define("enabled", And(Not(Eq(ch.T, IntLit(0))), en)), true
}

func (x *Unit) sendEnabled(st *State, ch Val) (T, bool) {
	now := x.ghostGet(st, "now")
	return And(Not(Eq(ch.T, IntLit(0))), x.uf("chan_sendready", SBool, ch.T, now.T)), true
}

func (x *Unit) recvValue(st *State, ch Val, et types.Type) (Val, Val) {
	v := x.freshVal(st, "recv", et)
	ok := Val{x.fresh("recvok", SBool), boolT}
	// a done channel is only ever closed
	x.assume(st, Imp(Eq(x.uf("chkind", SInt, ch.T), IntLit(1)), Not(ok.T)))
	x.assume(st, Imp(Not(ok.T), Eq(v.T, x.zero(et).T)))
	x.chanHook(st, "recv", ch, &v, &ok)
	return v, ok
}

// recordRecv remembers the latest values received from the channel expression text: result_of(<-ch, i).
func (x *Unit) recordRecv(st *State, che ast.Expr, v, ok Val) {
	for i, r := range []Val{v, ok} {
		k := fmt.Sprintf("res:<-%s:%d", x.srcOf(che), i)
		if _, have := x.entry.ghost[k]; !have {
			x.entry.ghost[k] = Val{x.fresh("res0", r.Sort), r.Typ}
		}
		st.ghost[k] = r
	}
}

func (x *Unit) chanRecv(st *State, che ast.Expr, n int, node ast.Node) []Val {
	ch := x.eval(st, che)
	x.envStep(st)
	en, _ := x.recvEnabled(st, ch)
	x.assume(st, en)
	ct, _ := under(ch.Typ).(*types.Chan)
	var et types.Type = intT
	if ct != nil {
		et = ct.Elem()
	}
	v, ok := x.recvValue(st, ch, et)
	x.recordRecv(st, che, v, ok)
	if n == 2 {
		return []Val{v, ok}
	}
	return []Val{v}
}

func (x *Unit) chanSend(st *State, ch, v Val, node ast.Node) {
	x.envStep(st)
	x.chanSendEffect(st, ch, v, node)
}

func (x *Unit) chanSendEffect(st *State, ch, v Val, node ast.Node) {
	// at-send clauses see the state just before the send (sent(ch) does not count this value yet)
	defer x.chanHook(st, "send", ch, &v, nil)
	// "at send CH assert e"
	b := x.eng.blockFor(x.pkg.PkgPath, x.fr.loopBase)
	if b == nil {
		return
	}
	var chText string
	switch n := node.(type) {
	case *ast.SendStmt:
		chText = x.srcOf(n.Chan)
	case *ast.CommClause:
		if s, ok := n.Comm.(*ast.SendStmt); ok {
			chText = x.srcOf(s.Chan)
		}
	}
	for i, cl := range b.Clauses {
		if cl.Kind != "at" || cl.AtKind != "send" || cl.AtName != chText {
			continue
		}
		x.atSeen[i]++
		c := x.bodySpecCtx(st, node)
		c.names["value"] = v
		g := x.specEval(st, cl.Expr, c)
		if cl.AtAction == "assert" {
			x.oblige(st, "at", "send "+cl.AtName+":"+clauseLabel(cl, i), g.T, node)
		} else {
			x.assume(st, g.T)
		}
	}
}

// chanHook maintains the ghost counters sent(ch) / closed(ch).
func (x *Unit) chanHook(st *State, op string, ch Val, v *Val, ok *Val) {
	switch op {
	case "send":
		g := x.ghostGet(st, "chanSent")
		cur := Select(x.u.MapVal(g.T), ch.T)
		x.writeLV(st, &LV{kind: lvMap, parent: &LV{kind: lvGlobal, key: "chanSent", typ: g.Typ}, idx: ch.T, typ: intT}, Val{App(SInt, "+", cur, IntLit(1)), intT})
	}
}

func (x *Unit) chanClose(st *State, ch Val, node ast.Node) {
	g := x.ghostGet(st, "chanClosed")
	cur := Select(x.u.MapVal(g.T), ch.T)
	x.oblige(st, "close", x.srcOf(node), Not(cur), node)
	x.writeLV(st, &LV{kind: lvMap, parent: &LV{kind: lvGlobal, key: "chanClosed", typ: g.Typ}, idx: ch.T, typ: boolT}, Val{True, boolT})
}

// ---------- library semantics written in Go (the rest is in lib/*.gvc contract files)

func (x *Unit) libCall(st *State, pc *preparedCall, name string, n int) ([]Val, bool) {
	args := pc.args
	recv := pc.recv
	sig := pc.sig
	one := func(t T, typ types.Type) ([]Val, bool) { return []Val{{t, typ}}, true }
	rt := func(i int) types.Type {
		if sig != nil && i < sig.Results().Len() {
			return sig.Results().At(i).Type()
		}
		return nil
	}
	switch name {
	// ----- time
	case "time.Now":
		x.envStep(st)
		return one(x.ghostGet(st, "now").T, rt(0))
	case "(time.Time).Sub":
		return one(App(SInt, "-", recv.T, args[0].T), rt(0))
	case "(time.Time).Add":
		return one(App(SInt, "+", recv.T, args[0].T), rt(0))
	case "(time.Time).After":
		return one(Cmp(">", recv.T, args[0].T), boolT)
	case "(time.Time).Before":
		return one(Cmp("<", recv.T, args[0].T), boolT)
	case "(time.Time).Equal":
		return one(Eq(recv.T, args[0].T), boolT)
	case "(time.Time).IsZero":
		return one(Eq(recv.T, IntLit(0)), boolT)
	case "(time.Time).UnixNano":
		return one(recv.T, rt(0))
	case "(time.Time).Unix":
		return one(x.define("unix", goFloorDiv(recv.T, IntLit(1000000000))), rt(0))
	case "(time.Time).UnixMilli":
		return one(x.define("unixms", goFloorDiv(recv.T, IntLit(1000000))), rt(0))
	case "time.Since":
		x.envStep(st)
		return one(App(SInt, "-", x.ghostGet(st, "now").T, args[0].T), rt(0))
	case "time.Until":
		x.envStep(st)
		return one(App(SInt, "-", args[0].T, x.ghostGet(st, "now").T), rt(0))
	case "(time.Duration).Seconds":
		return one(App(SReal, "/", ToReal(recv.T), T{"1000000000.0", SReal}), rt(0))
	case "(time.Duration).Milliseconds":
		return one(x.define("ms", goDiv(recv.T, IntLit(1000000))), rt(0))
	case "(time.Duration).Microseconds":
		return one(x.define("us", goDiv(recv.T, IntLit(1000))), rt(0))
	case "(time.Duration).Nanoseconds":
		return one(recv.T, rt(0))
	case "time.Sleep":
		x.envStep(st)
		now := x.ghostGet(st, "now")
		_ = now
		return nil, true
	case "time.NewTimer":
		t := x.alloc(st)
		now := x.ghostGet(st, "now")
		x.setTimerDeadline(st, t, App(SInt, "+", now.T, args[0].T))
		// t.C is the timer's channel
		key := "time_Timer.C"
		h := x.heapGet(st, key, ArraySort(SInt, SInt))
		ch := x.uf("timerch", SInt, t)
		st.heap[key] = x.define("H_"+key, Store(h, t, ch))
		x.fact(And(Eq(x.uf("chkind", SInt, ch), IntLit(2)), Eq(x.uf("chtimer", SInt, ch), t)))
		return one(t, rt(0))
	case "(*time.Timer).Reset":
		now := x.ghostGet(st, "now")
		x.setTimerDeadline(st, recv.T, App(SInt, "+", now.T, args[0].T))
		return one(x.fresh("wasactive", SBool), boolT)
	case "(*time.Timer).Stop":
		return one(x.fresh("wasactive", SBool), boolT)
	case "time.After":
		t := x.alloc(st)
		now := x.ghostGet(st, "now")
		x.setTimerDeadline(st, t, App(SInt, "+", now.T, args[0].T))
		ch := x.uf("timerch", SInt, t)
		x.fact(And(Eq(x.uf("chkind", SInt, ch), IntLit(2)), Eq(x.uf("chtimer", SInt, ch), t)))
		return one(ch, rt(0))
	// ----- context
	case "(context.Context).Done":
		ch := x.uf("donech", SInt, recv.T)
		x.fact(And(Eq(x.uf("chkind", SInt, ch), IntLit(1)), Eq(x.uf("chctx", SIface, ch), recv.T)))
		return one(ch, rt(0))
	case "(context.Context).Err":
		x.envStep(st)
		e := x.uf("ctxerr", SIface, recv.T)
		x.fact(Cmp(">", IfaceTyp(e), IntLit(0)))
		// a context's error is context.Canceled or context.DeadlineExceeded
		x.fact(Or(Eq(e, x.namedSentinel("context.Canceled")), Eq(e, x.namedSentinel("context.DeadlineExceeded"))))
		return one(x.define("err", Ite(x.ctxDone(st, recv.T), e, IfaceNil)), rt(0))
	case "context.WithCancel", "context.WithTimeout", "context.WithDeadline", "context.WithCancelCause":
		child := x.fresh("ctx", SIface)
		x.fact(Cmp(">", IfaceTyp(child), IntLit(0)))
		x.fact(Cmp("<=", x.uf("doneAt", SInt, child), x.uf("doneAt", SInt, args[0].T)))
		x.fact(Eq(x.uf("ctxparent", SIface, child), args[0].T))
		if name == "context.WithTimeout" {
			now := x.ghostGet(st, "now")
			x.assume(st, Cmp("<=", x.uf("doneAt", SInt, child), App(SInt, "+", now.T, args[1].T)))
		}
		cancel := x.fresh("cancel", SInt)
		x.fact(And(Cmp(">", cancel, IntLit(0)), Eq(x.uf("cancelctx", SIface, cancel), child)))
		return []Val{{child, rt(0)}, {cancel, rt(1)}}, true
	case "context.Background", "context.TODO":
		c := x.fresh("bgctx", SIface)
		x.fact(Cmp(">", IfaceTyp(c), IntLit(0)))
		return one(c, rt(0))
	case "context.WithValue":
		child := x.fresh("ctx", SIface)
		x.fact(Cmp(">", IfaceTyp(child), IntLit(0)))
		x.fact(Eq(x.uf("doneAt", SInt, child), x.uf("doneAt", SInt, args[0].T)))
		return one(child, rt(0))
	// ----- sync
	case "(*sync.Mutex).Lock", "(*sync.RWMutex).Lock", "(*sync.RWMutex).RLock":
		x.lockOp(st, pc, name, true)
		return nil, true
	case "(*sync.Mutex).Unlock", "(*sync.RWMutex).Unlock", "(*sync.RWMutex).RUnlock":
		x.lockOp(st, pc, name, false)
		return nil, true
	case "(*sync.WaitGroup).Add", "(*sync.WaitGroup).Done", "(*sync.WaitGroup).Wait":
		x.note("sync.WaitGroup operations are not modelled")
		return nil, true
	case "(*sync.Once).Do":
		return x.onceDo(st, pc), true
	case "(*sync.Pool).Get":
		x.note("sync.Pool.Get returns an arbitrary value of the pool's element type (pooltype); its contents are unconstrained")
		// a pooled object belongs to nobody else: it is as good as freshly allocated
		r := x.alloc(st)
		v := Val{MkIface(x.uf("pooltype", SInt, recv.T), r), rt(0)}
		x.assume(st, Cmp(">", IfaceTyp(v.T), IntLit(0)))
		return []Val{v}, true
	case "(*sync.Pool).Put":
		x.oblige(st, "pool", x.srcOf(pc.call)+":element-type", Eq(IfaceTyp(args[0].T), x.uf("pooltype", SInt, recv.T)), pc.call)
		return nil, true
	// ----- errors
	case "errors.New", "github.com/pkg/errors.New", "github.com/pkg/errors.Errorf", "fmt.Errorf", "golang.org/x/xerrors.Errorf", "golang.org/x/xerrors.New":
		e := x.fresh("err", SIface)
		x.assume(st, Cmp(">", IfaceTyp(e), IntLit(0)))
		x.assume(st, Eq(IfaceVal(e), x.alloc(st))) // a new error value is a new object: different from every existing error
		if strings.HasSuffix(name, "Errorf") && len(args) >= 2 {
			// %w wrapping keeps the cause of the (last) error argument
			x.wrapCause(st, pc, e)
		} else {
			x.assume(st, Eq(x.uf("errcause", SIface, e), e))
		}
		return one(e, rt(0))
	case "github.com/pkg/errors.WithMessage", "github.com/pkg/errors.Wrap", "github.com/pkg/errors.WithStack",
		"github.com/pkg/errors.WithMessagef", "github.com/pkg/errors.Wrapf":
		e := x.fresh("werr", SIface)
		in := args[0].T
		x.assume(st, Eq(Eq(IfaceTyp(e), IntLit(0)), Eq(IfaceTyp(in), IntLit(0))))
		x.assume(st, Eq(x.uf("errcause", SIface, e), x.uf("errcause", SIface, in)))
		x.assume(st, Imp(Eq(IfaceTyp(in), IntLit(0)), Eq(e, IfaceNil)))
		return one(e, rt(0))
	case "github.com/pkg/errors.Cause":
		r := x.uf("errcause", SIface, args[0].T)
		x.assume(st, Eq(Eq(IfaceTyp(r), IntLit(0)), Eq(IfaceTyp(args[0].T), IntLit(0))))
		x.assume(st, Imp(Eq(IfaceTyp(args[0].T), IntLit(0)), Eq(r, IfaceNil))) // Cause(nil) is nil
		return one(r, rt(0))
	case "errors.Is", "github.com/pkg/errors.Is":
		return one(x.errIs(args[0].T, args[1].T), boolT)
	case "errors.Unwrap":
		return []Val{x.freshVal(st, "unwrapped", rt(0))}, true
	case "(error).Error":
		return []Val{x.freshVal(st, "errstr", rt(0))}, true
	// ----- fmt
	case "fmt.Sprintf", "fmt.Sprint", "fmt.Sprintln":
		return []Val{x.freshVal(st, "sprintf", rt(0))}, true
	case "fmt.Println", "fmt.Printf", "fmt.Print", "fmt.Fprintf", "fmt.Fprintln", "fmt.Fprint":
		return x.freshResults(st, sig, "print"), true
	// ----- reflect (only what links a reflected length to the slice it came from)
	case "reflect.ValueOf":
		rv := x.freshVal(st, "reflectValue", rt(0))
		x.assume(st, Eq(x.uf("reflectSrc_"+sortIdent(rv.Sort), SIface, rv.T), args[0].T))
		return []Val{rv}, true
	case "(reflect.Value).Len":
		r := x.uf("reflectLen", SInt, x.uf("reflectSrc_"+sortIdent(recv.Sort), SIface, recv.T))
		x.assume(st, Cmp(">=", r, IntLit(0)))
		x.note("reflect.ValueOf(x).Len() is len(x) for a slice x; other uses of reflect are uninterpreted")
		return one(r, rt(0))
	// ----- math
	case "math.Sqrt":
		s := x.fresh("sqrt", SReal)
		zero := T{"0.0", SReal}
		x.assume(st, Imp(Cmp(">=", args[0].T, zero), And(Cmp(">=", s, zero), Eq(App(SReal, "*", s, s), args[0].T))))
		x.note("math.Sqrt(x) for x >= 0 is the exact real square root (float64 treated as real); for x < 0 the result is unconstrained (NaN)")
		return one(s, rt(0))
	case "math.Floor":
		return one(ToReal(App(SInt, "to_int", args[0].T)), rt(0))
	case "math.Ceil":
		return one(App(SReal, "-", ToReal(App(SInt, "to_int", App(SReal, "-", args[0].T)))), rt(0))
	case "math.Abs":
		zero := T{"0.0", SReal}
		return one(Ite(Cmp(">=", args[0].T, zero), args[0].T, App(SReal, "-", args[0].T)), rt(0))
	case "math.Max", "math.Min":
		op := ">="
		if name == "math.Min" {
			op = "<="
		}
		return one(Ite(Cmp(op, args[0].T, args[1].T), args[0].T, args[1].T), rt(0))
	}
	// ----- atomics (go.uber.org/atomic and sync/atomic typed values)
	if v, ok := x.atomicCall(st, pc, name); ok {
		return v, true
	}
	// ----- zap logging
	if strings.HasPrefix(name, "(*go.uber.org/zap.Logger).") || strings.HasPrefix(name, "(*go.uber.org/zap.SugaredLogger).") {
		m := name[strings.LastIndex(name, ".")+1:]
		switch m {
		case "Panic", "Panicf", "Panicw", "DPanic":
			x.raisePanic(st, "log panic", pc.call)
			st.pc = False
			return nil, true
		case "Fatal", "Fatalf", "Fatalw":
			x.bumpEvent(st, "exit")
			st.pc = False
			return nil, true
		case "Debug", "Info", "Warn", "Error", "Debugf", "Infof", "Warnf", "Errorf", "Debugw", "Infow", "Warnw", "Errorw", "Sync":
			x.note("logging calls are no-ops assumed not to panic")
			return x.freshResults(st, sig, "log"), true
		}
		return x.freshResults(st, sig, "zap"), true
	}
	if strings.HasPrefix(name, "go.uber.org/zap.") || strings.HasPrefix(name, "(*go.uber.org/zap/zapcore.CheckedEntry).") {
		return x.freshResults(st, sig, "zap"), true
	}
	if name == "log.Fatal" || name == "log.Fatalf" || name == "log.Fatalln" || name == "os.Exit" {
		x.bumpEvent(st, "exit")
		st.pc = False
		return nil, true
	}
	if name == "log.Panic" || name == "log.Panicf" || name == "log.Panicln" {
		x.raisePanic(st, "log panic", pc.call)
		st.pc = False
		return nil, true
	}
	if strings.HasPrefix(name, "log.") {
		return nil, true
	}
	return nil, false
}

// goFloorDiv: SMT div is floor division for positive divisors.
func goFloorDiv(a, b T) T { return App(SInt, "div", a, b) }

func (x *Unit) setTimerDeadline(st *State, timer T, dl T) {
	g := x.ghostGet(st, "timerDeadline")
	x.writeLV(st, &LV{kind: lvMap, parent: &LV{kind: lvGlobal, key: "timerDeadline", typ: g.Typ}, idx: timer, typ: intT}, Val{dl, intT})
}

func (x *Unit) wrapCause(st *State, pc *preparedCall, e T) {
	// find the last error-typed argument among the variadic args
	var last *Val
	for i := len(pc.call.Args) - 1; i >= 1; i-- {
		t := x.info.TypeOf(pc.call.Args[i])
		if t != nil && isIface(t) && types.Implements(t, errorIface()) {
			sp := x.save()
			x.dry++
			v := x.eval(st.clone(), pc.call.Args[i])
			x.dry--
			x.restore(sp)
			last = &v
			break
		}
	}
	if last != nil {
		x.assume(st, Eq(x.uf("errcause", SIface, e), x.uf("errcause", SIface, last.T)))
	} else {
		x.assume(st, Eq(x.uf("errcause", SIface, e), e))
	}
}

// errIs: errors.Is(a, b) as a function of its arguments (error chains are immutable): true when a is b or a's cause is b,
// false for a nil a and a non-nil b; otherwise unconstrained.
func (x *Unit) errIs(a, b T) T {
	r := x.uf("errIs", SBool, a, b)
	if x.binders == 0 {
		x.fact(Imp(Eq(a, b), r))
		x.fact(Imp(And(Eq(IfaceTyp(a), IntLit(0)), Cmp(">", IfaceTyp(b), IntLit(0))), Not(r)))
		x.fact(Imp(Eq(x.uf("errcause", SIface, a), b), r))
	}
	return r
}

func errorIface() *types.Interface {
	return types.Universe.Lookup("error").Type().Underlying().(*types.Interface)
}

// lockOp tracks held(mu) ghost flags keyed by the mutex address.
func (x *Unit) lockOp(st *State, pc *preparedCall, name string, lock bool) {
	g := x.ghostGet(st, "lockHeld")
	mode := int64(2) // write
	if strings.Contains(name, "RLock") || strings.Contains(name, "RUnlock") {
		mode = 1
	}
	addr := pc.recv.T
	cur := Select(x.u.MapVal(g.T), addr)
	var nv T
	if lock {
		x.oblige(st, "lock", x.srcOf(pc.call)+":not-held", Eq(cur, IntLit(0)), pc.call)
		nv = IntLit(mode)
	} else {
		x.oblige(st, "lock", x.srcOf(pc.call)+":held", Eq(cur, IntLit(mode)), pc.call)
		nv = IntLit(0)
	}
	x.writeLV(st, &LV{kind: lvMap, parent: &LV{kind: lvGlobal, key: "lockHeld", typ: g.Typ}, idx: addr, typ: intT}, Val{nv, intT})
	if !x.lockRelFact && x.lockRel0.S != "" {
		x.lockRelFact = true
		m := x.u.MapVal(x.lockRel0.T).S
		x.fact(T{fmt.Sprintf("(forall ((a!lr Int)) (! (not (select %s a!lr)) :pattern ((select %s a!lr))))", m, m), SBool})
	}
	rg := x.ghostGet(st, "lockReleased")
	if lock {
		x.reacquireHavoc(st, pc, Select(x.u.MapVal(rg.T), addr))
	} else {
		x.writeLV(st, &LV{kind: lvMap, parent: &LV{kind: lvGlobal, key: "lockReleased", typ: rg.Typ}, idx: addr, typ: boolT}, Val{True, boolT})
	}
}

// reacquireHavoc: a mutex that this call has released earlier is taken again. Between the two critical sections other
// goroutines may have changed everything the mutex guards (guarded_by), so what the first section read is stale: the guarded
// fields of the same object (for a map-typed field: the map's contents) become unknown where `released` holds.
func (x *Unit) reacquireHavoc(st *State, pc *preparedCall, released T) {
	if pc.call == nil || len(x.eng.guards) == 0 {
		return
	}
	fun, ok := pc.call.Fun.(*ast.SelectorExpr)
	if !ok {
		return
	}
	muSel, ok := ast.Unparen(fun.X).(*ast.SelectorExpr)
	if !ok {
		return
	}
	// a contract that states the interference at this very call itself (at call M.Lock havoc ... / assume monitor invariant) has the say
	funText := x.srcOf(fun)
	for fr := x.fr; fr != nil; fr = fr.parent {
		if b := x.eng.blockFor(x.pkg.PkgPath, fr.loopBase); b != nil {
			for _, cl := range b.Clauses {
				if cl.Kind == "at" && cl.AtKind == "call" && cl.AtAction == "havoc" && cl.AtName == funText {
					return
				}
			}
		}
	}
	bt := x.info.TypeOf(muSel.X)
	if bt == nil {
		return
	}
	stt, name, isPtr := structOfType(bt)
	if stt == nil || !isPtr {
		return
	}
	var fields []string
	for i := 0; i < stt.NumFields(); i++ {
		if mu, guarded := x.eng.guards[name+"."+stt.Field(i).Name()]; guarded && mu == muSel.Sel.Name {
			fields = append(fields, stt.Field(i).Name())
		}
	}
	if len(fields) == 0 {
		return
	}
	if sf, ok := x.eng.specFuncs["quiet"]; ok && len(sf.psorts) == 0 && sf.rsort == SBool {
		// quiet(): no other goroutine touches the object while the call runs (contracts state their sequential clauses under it)
		x.useSpecFunc(sf)
		released = And(released, Not(T{sf.smtName, SBool}))
	}
	base := x.eval(st, muSel.X)
	x.inSpec++
	defer func() { x.inSpec-- }()
	for _, fname := range fields {
		_, path, _ := types.LookupFieldOrMethod(bt, true, x.pkg.Types, fname)
		if len(path) == 0 {
			continue
		}
		lv := x.walkFields(st, &LV{kind: lvBlank, ref: base.T, typ: bt}, bt, path)
		if lv == nil || lv.kind == lvBlank {
			continue
		}
		cur := x.readLV(st, lv)
		if _, isMap := under(cur.Typ).(*types.Map); isMap && !x.isGhostMap(cur) {
			lv = x.mapLV(cur)
			cur = x.readLV(st, lv)
		}
		x.note("a mutex released and taken again within one call: the fields it guards (guarded_by) are unknown at the second acquisition (other goroutines ran in between)")
		nv := Val{Ite(released, x.fresh("reacq", cur.Sort), cur.T), lv.typ}
		x.writeLV(st, lv, nv)
		x.assume(st, x.typeInv(st, x.readLV(st, lv), 0))
	}
}

func (x *Unit) onceDo(st *State, pc *preparedCall) []Val {
	cell := &LV{kind: lvHeap, key: "atomic:sync_Once", ref: pc.recv.T, srt: SBool, typ: boolT}
	done := x.readLV(st, cell).T
	run := st.clone()
	skip := st.clone()
	x.assume(run, Not(done))
	x.assume(skip, done)
	// passing through Do synchronises with the one execution of the function: fields published by this Once
	// (guarded_by T.field oncefield) may be accessed from here on, and inside the function itself
	for _, s2 := range []*State{run, skip} {
		g := x.ghostGet(s2, "syncedWith")
		x.writeLV(s2, &LV{kind: lvMap, parent: &LV{kind: lvGlobal, key: "syncedWith", typ: g.Typ}, idx: pc.recv.T, typ: boolT}, Val{True, boolT})
	}
	x.writeLV(run, cell, Val{True, boolT})
	fpc := &preparedCall{call: &ast.CallExpr{Fun: pc.call.Args[0], Lparen: pc.call.Lparen}, funVal: &pc.args[0]}
	if lit, ok := ast.Unparen(pc.call.Args[0]).(*ast.FuncLit); ok {
		fpc.lit = lit
		fpc.funVal = nil
	}
	fpc.sig, _ = under(pc.args[0].Typ).(*types.Signature)
	if se, ok := ast.Unparen(pc.call.Args[0]).(*ast.SelectorExpr); ok {
		// once.Do(x.f) with f a func-typed field: use the field's contract
		if sel := x.info.Selections[se]; sel != nil && sel.Kind() == types.FieldVal {
			if stt, name, _ := structOfType(x.info.TypeOf(se.X)); stt != nil && len(sel.Index()) == 1 {
				fpc.fieldOf = shortTypeName(name) + "." + se.Sel.Name
			}
		}
	}
	if live(run) != nil {
		x.invoke(run, fpc, 0)
	}
	*st = *x.merge(live(run), live(skip))
	return nil
}

// atomicCall models typed atomics as sequential read-modify-write on the cell (assumed linearizable).
func (x *Unit) atomicCall(st *State, pc *preparedCall, name string) ([]Val, bool) {
	isUber := strings.HasPrefix(name, "(*go.uber.org/atomic.")
	isStd := strings.HasPrefix(name, "(*sync/atomic.")
	isMon := false
	if !isUber && !isStd && !isMon {
		return nil, false
	}
	m := name[strings.LastIndex(name, ".")+1:]
	x.note("atomic operations are sequential read-modify-write steps on a ghost cell (assumed linearizable)")
	// the cell: heap map keyed by the atomic's address
	tname := name[2:strings.Index(name, ")")]
	var vt types.Type = types.Typ[types.Int64]
	srt := SInt
	if strings.HasSuffix(tname, ".Bool") {
		vt = boolT
		srt = SBool
	}
	if strings.HasSuffix(tname, ".String") {
		vt = types.Typ[types.String]
		srt = SStr
	}
	if strings.HasSuffix(tname, ".Float64") {
		vt = realT
		srt = SReal
	}
	if strings.HasSuffix(tname, ".Value") || strings.HasSuffix(tname, ".Error") || strings.Contains(tname, ".Pointer") {
		return nil, false
	}
	key := "atomic:" + mangle(tname)
	addr := pc.recv.T
	h := x.heapGet(st, key, ArraySort(SInt, srt))
	cur := Select(h, addr)
	set := func(v T) {
		st.heap[key] = x.define("H_atomic", Store(x.heapGet(st, key, ArraySort(SInt, srt)), addr, v))
	}
	args := pc.args
	res := func(t T) []Val {
		var typ types.Type = vt
		if pc.sig != nil && pc.sig.Results().Len() > 0 {
			typ = pc.sig.Results().At(0).Type()
		}
		return []Val{{t, typ}}
	}
	switch m {
	case "Load", "Get":
		return res(cur), true
	case "Store", "Set":
		set(args[0].T)
		return nil, true
	case "Inc":
		n := x.define("atomic", App(SInt, "+", cur, IntLit(1)))
		set(n)
		return res(n), true
	case "Dec":
		n := x.define("atomic", App(SInt, "-", cur, IntLit(1)))
		set(n)
		return res(n), true
	case "Add":
		n := x.define("atomic", App(SInt, "+", cur, args[0].T))
		set(n)
		if isMon {
			return nil, true
		}
		return res(n), true
	case "Sub":
		n := x.define("atomic", App(SInt, "-", cur, args[0].T))
		set(n)
		return res(n), true
	case "Swap":
		set(args[0].T)
		return res(cur), true
	case "CAS", "CompareAndSwap":
		ok := Eq(cur, args[0].T)
		set(Ite(ok, args[1].T, cur))
		return []Val{{ok, boolT}}, true
	case "Toggle":
		set(Not(cur))
		return res(cur), true
	}
	return nil, false
}

var _ = token.NoPos
