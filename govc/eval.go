package main

import (
	"fmt"
	"go/ast"
	"go/constant"
	"go/token"
	"go/types"
	"math/big"
	"strings"
)

// ---------- type helpers

func under(t types.Type) types.Type {
	if t == nil {
		return nil
	}
	return types.Unalias(t).Underlying()
}

func isIface(t types.Type) bool {
	if t == nil {
		return false
	}
	if tp, ok := types.Unalias(t).(*types.TypeParam); ok {
		it, isI := tp.Constraint().Underlying().(*types.Interface)
		return isI && it.NumMethods() > 0
	}
	_, ok := under(t).(*types.Interface)
	return ok
}

func isUntypedNil(t types.Type) bool {
	b, ok := t.(*types.Basic)
	return ok && b.Kind() == types.UntypedNil
}

func isUnsigned(t types.Type) bool {
	b, ok := under(t).(*types.Basic)
	return ok && b.Info()&types.IsUnsigned != 0
}

func isFloat(t types.Type) bool {
	b, ok := under(t).(*types.Basic)
	return ok && b.Info()&types.IsFloat != 0
}

func isInteger(t types.Type) bool {
	b, ok := under(t).(*types.Basic)
	return ok && b.Info()&types.IsInteger != 0
}

func isString(t types.Type) bool {
	b, ok := under(t).(*types.Basic)
	return ok && b.Info()&types.IsString != 0
}

// structOfType returns the struct type behind t (through one pointer), its heap name and whether t is a pointer.
func structOfType(t types.Type) (st *types.Struct, name string, isPtr bool) {
	t = types.Unalias(t)
	if p, ok := under(t).(*types.Pointer); ok {
		isPtr = true
		t = types.Unalias(p.Elem())
	}
	s, ok := under(t).(*types.Struct)
	if !ok {
		return nil, "", isPtr
	}
	return s, mangle(types.TypeString(t, nil)), isPtr
}

// ---------- zero values, type invariants

func (x *Unit) zero(t types.Type) Val {
	srt := x.u.SortOf(t)
	return Val{x.zeroSort(srt, t), t}
}

func (x *Unit) zeroSort(srt Sort, t types.Type) T {
	switch srt {
	case SInt:
		return IntLit(0)
	case SBool:
		return False
	case SReal:
		return T{"0.0", SReal}
	case SStr:
		return x.u.StrLit("")
	case SIface:
		return IfaceNil
	}
	s := string(srt)
	if strings.HasPrefix(s, "(Array ") {
		es := elemSort(srt)
		var et types.Type
		if a, ok := under(t).(*types.Array); ok {
			et = a.Elem()
		}
		return T{fmt.Sprintf("((as const %s) %s)", s, x.zeroSort(es, et).S), srt}
	}
	if es, ok := x.u.sliceElem[srt]; ok {
		var et types.Type
		if sl, ok := under(t).(*types.Slice); ok {
			et = sl.Elem()
		}
		arr := T{fmt.Sprintf("((as const (Array Int %s)) %s)", es, x.zeroSort(es, et).S), ArraySort(SInt, es)}
		return x.u.MkSlice(srt, IntLit(0), IntLit(0), arr)
	}
	if kv, ok := x.u.mapKV[srt]; ok {
		var vt types.Type
		if m, ok := under(t).(*types.Map); ok {
			vt = m.Elem()
		}
		dom := T{fmt.Sprintf("((as const (Array %s Bool)) false)", kv[0]), ArraySort(kv[0], SBool)}
		val := T{fmt.Sprintf("((as const (Array %s %s)) %s)", kv[0], kv[1], x.zeroSort(kv[1], vt).S), ArraySort(kv[0], kv[1])}
		return x.u.MkMap(srt, True, IntLit(0), dom, val)
	}
	if si, ok := x.u.structOf[srt]; ok {
		var stt *types.Struct
		if t != nil {
			stt, _ = under(t).(*types.Struct)
		}
		args := make([]T, len(si.fields))
		for i := range si.fields {
			var ft types.Type
			if stt != nil {
				ft = stt.Field(i).Type()
			}
			args[i] = x.zeroSort(si.fsorts[i], ft)
		}
		return x.u.MkStruct(srt, args)
	}
	if strings.HasPrefix(s, "TP_") {
		x.u.DeclFun("zero_"+s, "() "+s)
		return T{"zero_" + s, srt}
	}
	panic("zeroSort: " + s)
}

// typeInv returns facts that hold of every well-typed value.
func (x *Unit) typeInv(st *State, v Val, depth int) T {
	if v.Typ == nil {
		return True
	}
	t := v.Typ
	if isNamed(t, "time", "Time") {
		return True
	}
	switch tt := under(t).(type) {
	case *types.Basic:
		if tt.Info()&types.IsUnsigned != 0 {
			return Cmp(">=", v.T, IntLit(0))
		}
		if r, ok := intRange(tt); ok && x.eng.ranges {
			return And(Cmp(">=", v.T, BigIntLit(r[0])), Cmp("<=", v.T, BigIntLit(r[1])))
		}
	case *types.Chan:
		// channels of different element types never alias
		x.u.DeclFun("chantype", "(Int) Int")
		id := IntLit(int64(x.u.TypeID(tt.Elem())))
		return And(Cmp(">=", v.T, IntLit(0)), Cmp("<=", x.proot(v.T), st.alloc), Or(Eq(v.T, IntLit(0)), Eq(App(SInt, "chantype", v.T), id)))
	case *types.Pointer:
		return And(Cmp(">=", v.T, IntLit(0)), Cmp("<=", x.proot(v.T), st.alloc))
	case *types.Slice:
		return And(Cmp(">=", x.u.SliceLen(v.T), IntLit(0)), Cmp(">=", x.u.SliceCap(v.T), x.u.SliceLen(v.T)))
	case *types.Map:
		if x.isGhostMap(v) {
			return Cmp(">=", x.u.MapLen(v.T), IntLit(0))
		}
		return And(Cmp(">=", v.T, IntLit(0)), Cmp("<=", x.proot(v.T), st.alloc))
	case *types.Interface:
		if v.Sort != SIface {
			return True // a value of an unconstrained type parameter: opaque
		}
		return And(Cmp(">=", IfaceTyp(v.T), IntLit(0)), Imp(Eq(IfaceTyp(v.T), IntLit(0)), Eq(IfaceVal(v.T), IntLit(0))))
	case *types.Struct:
		if depth > 2 {
			return True
		}
		var cs []T
		for i := 0; i < tt.NumFields(); i++ {
			fv := Val{x.u.StructField(v.T, i), tt.Field(i).Type()}
			cs = append(cs, x.typeInv(st, fv, depth+1))
		}
		return And(cs...)
	}
	return True
}

func intRange(b *types.Basic) ([2]*big.Int, bool) {
	mk := func(lo, hi string) [2]*big.Int {
		l, _ := new(big.Int).SetString(lo, 10)
		h, _ := new(big.Int).SetString(hi, 10)
		return [2]*big.Int{l, h}
	}
	switch b.Kind() {
	case types.Int, types.Int64:
		return mk("-9223372036854775808", "9223372036854775807"), true
	case types.Int32:
		return mk("-2147483648", "2147483647"), true
	case types.Int16:
		return mk("-32768", "32767"), true
	case types.Int8:
		return mk("-128", "127"), true
	case types.Uint8:
		return mk("0", "255"), true
	case types.Uint16:
		return mk("0", "65535"), true
	case types.Uint32:
		return mk("0", "4294967295"), true
	case types.Uint, types.Uint64, types.Uintptr:
		return mk("0", "18446744073709551615"), true
	}
	return [2]*big.Int{}, false
}

// freshVal creates an unconstrained well-typed value.
func (x *Unit) freshVal(st *State, name string, t types.Type) Val {
	v := Val{x.fresh(name, x.u.SortOf(t)), t}
	x.assume(st, x.typeInv(st, v, 0))
	return v
}

// ---------- constants

func (x *Unit) constVal(cv constant.Value, t types.Type) Val {
	switch cv.Kind() {
	case constant.Bool:
		return Val{BoolLit(constant.BoolVal(cv)), t}
	case constant.String:
		return Val{x.u.StrLit(constant.StringVal(cv)), t}
	case constant.Int:
		if isFloat(t) {
			r := new(big.Rat)
			bi, _ := new(big.Int).SetString(cv.ExactString(), 10)
			r.SetInt(bi)
			return Val{RatLit(r), t}
		}
		bi, _ := new(big.Int).SetString(cv.ExactString(), 10)
		return Val{BigIntLit(bi), t}
	case constant.Float:
		if isInteger(t) {
			iv := constant.ToInt(cv)
			bi, _ := new(big.Int).SetString(iv.ExactString(), 10)
			return Val{BigIntLit(bi), t}
		}
		r, ok := new(big.Rat).SetString(cv.ExactString())
		if !ok {
			f, _ := constant.Float64Val(cv)
			r = new(big.Rat).SetFloat64(f)
		}
		return Val{RatLit(r), t}
	}
	return Val{x.fresh("const", x.u.SortOf(t)), t}
}

// ---------- conversion (assignability: boxing into interfaces, nil)

func (x *Unit) convert(st *State, v Val, to types.Type) Val {
	if to == nil {
		return v
	}
	if v.Typ != nil && isUntypedNil(v.Typ) {
		return x.zero(to)
	}
	if isIface(to) {
		if v.Typ == nil || isIface(v.Typ) {
			return Val{v.T, to}
		}
		if v.Sort == SIface {
			return Val{v.T, to}
		}
		id := x.u.TypeID(v.Typ)
		b := x.u.Box(v.T)
		if b.S != v.S {
			// unbox(box(v)) == v
			x.fact(Eq(x.u.Unbox(b, v.Sort), v.T))
		}
		return Val{MkIface(IntLit(int64(id)), b), to}
	}
	srt := x.u.SortOf(to)
	if v.Sort != srt {
		switch {
		case srt == SReal && v.Sort == SInt:
			return Val{ToReal(v.T), to}
		case srt == SInt && v.Sort == SReal:
			return Val{truncReal(v.T), to}
		}
		if x.inSpec == 0 {
			x.unsupportedf(nil, "convert: sort mismatch %s -> %s (%v)", v.Sort, srt, to)
		}
		return Val{x.fresh("conv", srt), to}
	}
	return Val{v.T, to}
}

// ---------- maps: references to contents stored in the heap (ghost maps are plain values)

func (x *Unit) isGhostMap(v Val) bool {
	_, ok := x.u.mapKV[v.Sort]
	return ok
}

func (x *Unit) mapLV(m Val) *LV {
	dt := x.u.MapDT(m.Typ)
	return &LV{kind: lvHeap, key: "map:" + string(dt), ref: m.T, srt: dt, typ: m.Typ}
}

// mapContent returns the contents datatype value of map m in state st.
func (x *Unit) mapContent(st *State, m Val) T {
	if x.isGhostMap(m) {
		return m.T
	}
	lv := x.mapLV(m)
	h := x.heapGet(st, lv.key, ArraySort(SInt, lv.srt))
	return Select(h, m.T)
}

func (x *Unit) mapIsNil(st *State, m Val) T {
	if x.isGhostMap(m) {
		return x.u.MapNil(m.T)
	}
	return Eq(m.T, IntLit(0))
}

func (x *Unit) mapHas(st *State, m Val, k T) T {
	c := x.mapContent(st, m)
	return And(Not(x.mapIsNil(st, m)), Select(x.u.MapDom(c), k))
}

func (x *Unit) mapLenT(st *State, m Val) T {
	c := x.mapContent(st, m)
	return Ite(x.mapIsNil(st, m), IntLit(0), x.u.MapLen(c))
}

// newMap allocates a map with the given contents.
func (x *Unit) newMap(st *State, t types.Type, content T) Val {
	r := x.alloc(st)
	m := Val{r, t}
	lv := x.mapLV(m)
	h := x.heapGet(st, lv.key, ArraySort(SInt, lv.srt))
	st.heap[lv.key] = x.define("H_map", Store(h, r, content))
	return m
}

func (x *Unit) emptyMapContent(t types.Type) T {
	dt := x.u.MapDT(t)
	kv := x.u.mapKV[dt]
	mt := under(t).(*types.Map)
	dom := T{fmt.Sprintf("((as const (Array %s Bool)) false)", kv[0]), ArraySort(kv[0], SBool)}
	val := T{fmt.Sprintf("((as const (Array %s %s)) %s)", kv[0], kv[1], x.zero(mt.Elem()).S), ArraySort(kv[0], kv[1])}
	return x.u.MkMap(dt, False, IntLit(0), dom, val)
}

// ---------- lvalues

type lvKind int

const (
	lvBlank lvKind = iota
	lvVar
	lvGlobal
	lvHeap
	lvField
	lvIndex
	lvMap
)

type LV struct {
	kind   lvKind
	obj    types.Object
	key    string
	ref    T
	srt    Sort
	parent *LV
	fidx   int
	idx    T
	typ    types.Type
}

func (x *Unit) readLV(st *State, lv *LV) Val {
	switch lv.kind {
	case lvVar:
		return x.readVar(st, lv.obj)
	case lvGlobal:
		if lv.obj == nil {
			return x.ghostGet(st, lv.key)
		}
		return x.readGlobal(st, lv.obj)
	case lvHeap:
		if strings.HasPrefix(lv.key, "struct:") {
			return x.readStructAt(st, lv.ref, lv.typ)
		}
		if lv.key == "time_Timer.C" {
			// a timer's channel is a function of the timer
			ch := x.uf("timerch", SInt, lv.ref)
			x.fact(And(Eq(x.uf("chkind", SInt, ch), IntLit(2)), Eq(x.uf("chtimer", SInt, ch), lv.ref)))
			return Val{ch, lv.typ}
		}
		h := x.heapGet(st, lv.key, ArraySort(SInt, lv.srt))
		v := Val{Select(h, lv.ref), lv.typ}
		x.entryRefFact(lv)
		return v
	case lvField:
		p := x.readLV(st, lv.parent)
		return Val{x.u.StructField(p.T, lv.fidx), lv.typ}
	case lvIndex:
		p := x.readLV(st, lv.parent)
		if _, ok := x.u.sliceElem[p.Sort]; ok {
			return Val{Select(x.u.SliceArr(p.T), lv.idx), lv.typ}
		}
		return Val{Select(p.T, lv.idx), lv.typ}
	case lvMap:
		p := x.readLV(st, lv.parent)
		return Val{Select(x.u.MapVal(p.T), lv.idx), lv.typ}
	}
	return x.zero(lv.typ)
}

func (x *Unit) writeLV(st *State, lv *LV, v Val) {
	switch lv.kind {
	case lvBlank:
	case lvVar:
		x.writeVar(st, lv.obj, v)
	case lvGlobal:
		if lv.obj == nil {
			st.ghost[lv.key] = v
			return
		}
		st.ghost["var:"+globalKey(lv.obj)] = v
	case lvHeap:
		if strings.HasPrefix(lv.key, "struct:") {
			x.writeStructAt(st, lv.ref, lv.typ, v.T)
			return
		}
		h := x.heapGet(st, lv.key, ArraySort(SInt, lv.srt))
		st.heap[lv.key] = x.define("H_"+lv.key, Store(h, lv.ref, v.T))
	case lvField:
		p := x.readLV(st, lv.parent)
		x.writeLV(st, lv.parent, Val{x.u.StructUpdate(p.T, lv.fidx, v.T), p.Typ})
	case lvIndex:
		p := x.readLV(st, lv.parent)
		if _, ok := x.u.sliceElem[p.Sort]; ok {
			n := x.u.MkSlice(p.Sort, x.u.SliceLen(p.T), x.u.SliceCap(p.T), Store(x.u.SliceArr(p.T), lv.idx, v.T))
			x.writeLV(st, lv.parent, Val{n, p.Typ})
		} else {
			x.writeLV(st, lv.parent, Val{Store(p.T, lv.idx, v.T), p.Typ})
		}
	case lvMap:
		p := x.readLV(st, lv.parent)
		dom := x.u.MapDom(p.T)
		had := Select(dom, lv.idx)
		nl := Ite(had, x.u.MapLen(p.T), App(SInt, "+", x.u.MapLen(p.T), IntLit(1)))
		n := x.u.MkMap(p.Sort, False, nl, Store(dom, lv.idx, True), Store(x.u.MapVal(p.T), lv.idx, v.T))
		x.writeLV(st, lv.parent, Val{x.define("map", n), p.Typ})
	}
}

func globalKey(o types.Object) string {
	if o.Pkg() != nil {
		return o.Pkg().Path() + "." + o.Name()
	}
	return o.Name()
}

func (x *Unit) readGlobal(st *State, o types.Object) Val {
	k := "var:" + globalKey(o)
	if v, ok := st.ghost[k]; ok {
		return v
	}
	v, ok := x.entry.ghost[k]
	if !ok {
		v = Val{x.fresh("G_"+o.Name(), x.u.SortOf(o.Type())), o.Type()}
		x.entry.ghost[k] = v
		x.inputs = append(x.inputs, v.S)
		// sentinel errors and other package-level interface values are assumed initialised (non-nil)
		if isIface(o.Type()) {
			x.fact(Cmp(">", IfaceTyp(v.T), IntLit(0)))
			if types.Identical(o.Type(), types.Universe.Lookup("error").Type()) {
				x.sentinelFacts(v.T)
			}
		}
	}
	st.ghost[k] = v
	return v
}

// sentinelFacts: distinct package-level error variables hold distinct values, created before the function was entered.
func (x *Unit) sentinelFacts(v T) {
	for _, other := range x.errGlobals {
		x.fact(Not(Eq(v, other)))
	}
	x.errGlobals = append(x.errGlobals, v)
	x.fact(Eq(x.uf("errcause", SIface, v), v)) // a sentinel error wraps nothing: it is its own cause
	if x.entry != nil {
		x.fact(And(Cmp(">=", IfaceVal(v), IntLit(0)), Cmp("<=", x.proot(IfaceVal(v)), x.entry.alloc)))
	}
	x.note("package-level error variables (sentinel errors) are initialised, pairwise distinct and never reassigned")
}

// namedSentinel: a sentinel error of another package that the program text does not mention (context.Canceled ...).
func (x *Unit) namedSentinel(name string) T {
	k := "var:" + name
	if v, ok := x.entry.ghost[k]; ok {
		return v.T
	}
	v := Val{x.fresh("G_"+name, SIface), types.Universe.Lookup("error").Type()}
	x.entry.ghost[k] = v
	x.fact(Cmp(">", IfaceTyp(v.T), IntLit(0)))
	x.sentinelFacts(v.T)
	return v.T
}

func (x *Unit) readVar(st *State, o types.Object) Val {
	if ref, ok := x.boxed[o]; ok {
		if isFlatStruct(o.Type()) {
			// a struct whose address is taken lives field-wise in the heap, like every object reached through a pointer
			return x.readStructAt(st, ref, o.Type())
		}
		srt := x.u.SortOf(o.Type())
		h := x.heapGet(st, "ptr:"+string(srt), ArraySort(SInt, srt))
		return Val{Select(h, ref), o.Type()}
	}
	if v, ok := st.env[o]; ok {
		return v
	}
	if vr, ok := o.(*types.Var); ok && !vr.IsField() && o.Parent() != nil && o.Pkg() != nil && o.Parent() == o.Pkg().Scope() {
		return x.readGlobal(st, o)
	}
	// captured variable of an enclosing function (unit is a literal): free input
	v := x.freshVal(st, o.Name(), o.Type())
	x.inputs = append(x.inputs, v.S)
	st.env[o] = v
	if _, ok := x.entry.env[o]; !ok {
		x.entry.env[o] = v
	}
	return v
}

func (x *Unit) writeVar(st *State, o types.Object, v Val) {
	if ref, ok := x.boxed[o]; ok {
		if isFlatStruct(o.Type()) {
			x.writeStructAt(st, ref, o.Type(), v.T)
			return
		}
		srt := x.u.SortOf(o.Type())
		key := "ptr:" + string(srt)
		h := x.heapGet(st, key, ArraySort(SInt, srt))
		st.heap[key] = x.define("H_ptr", Store(h, ref, v.T))
		return
	}
	if vr, ok := o.(*types.Var); ok && !vr.IsField() && o.Parent() != nil && o.Pkg() != nil && o.Parent() == o.Pkg().Scope() {
		st.ghost["var:"+globalKey(o)] = v
		return
	}
	st.env[o] = Val{x.define(o.Name(), v.T), o.Type()}
}

// lvalue computes the location denoted by e.
func (x *Unit) lvalue(st *State, e ast.Expr) *LV {
	switch e := e.(type) {
	case *ast.ParenExpr:
		return x.lvalue(st, e.X)
	case *ast.Ident:
		if e.Name == "_" {
			return &LV{kind: lvBlank}
		}
		o := x.info.ObjectOf(e)
		if o == nil {
			x.unsupportedf(e, "lvalue: unresolved identifier %s", e.Name)
			return &LV{kind: lvBlank}
		}
		return &LV{kind: lvVar, obj: o, typ: o.Type()}
	case *ast.SelectorExpr:
		sel := x.info.Selections[e]
		if sel == nil {
			// qualified package variable
			o := x.info.ObjectOf(e.Sel)
			return &LV{kind: lvGlobal, obj: o, typ: o.Type()}
		}
		return x.selLV(st, e, sel)
	case *ast.IndexExpr:
		bt := x.info.TypeOf(e.X)
		switch tt := under(bt).(type) {
		case *types.Map:
			m := x.eval(st, e.X)
			k := x.convert(st, x.eval(st, e.Index), tt.Key())
			if x.inSpec == 0 {
				// assignment to an entry of a nil map panics
				x.oblige(st, "nilmap", x.srcOf(e), Not(x.mapIsNil(st, m)), e)
			}
			return &LV{kind: lvMap, parent: x.mapLV(m), idx: k.T, typ: tt.Elem()}
		case *types.Slice:
			plv := x.lvalue(st, e.X)
			i := x.eval(st, e.Index)
			p := x.readLV(st, plv)
			x.oblige(st, "index", x.srcOf(e), And(Cmp(">=", i.T, IntLit(0)), Cmp("<", i.T, x.u.SliceLen(p.T))), e)
			return &LV{kind: lvIndex, parent: plv, idx: i.T, typ: tt.Elem()}
		case *types.Array:
			plv := x.lvalue(st, e.X)
			i := x.eval(st, e.Index)
			x.oblige(st, "index", x.srcOf(e), And(Cmp(">=", i.T, IntLit(0)), Cmp("<", i.T, IntLit(tt.Len()))), e)
			return &LV{kind: lvIndex, parent: plv, idx: i.T, typ: tt.Elem()}
		case *types.Pointer:
			if at, ok := under(tt.Elem()).(*types.Array); ok {
				p := x.eval(st, e.X)
				srt := x.u.SortOf(tt.Elem())
				plv := &LV{kind: lvHeap, key: "ptr:" + string(srt), ref: p.T, srt: srt, typ: tt.Elem()}
				i := x.eval(st, e.Index)
				x.oblige(st, "index", x.srcOf(e), And(Cmp(">=", i.T, IntLit(0)), Cmp("<", i.T, IntLit(at.Len()))), e)
				return &LV{kind: lvIndex, parent: plv, idx: i.T, typ: at.Elem()}
			}
		}
		x.unsupportedf(e, "lvalue: index of %v", bt)
		return &LV{kind: lvBlank}
	case *ast.StarExpr:
		p := x.eval(st, e.X)
		pt, _ := under(p.Typ).(*types.Pointer)
		if pt == nil {
			x.unsupportedf(e, "lvalue: deref of non-pointer")
			return &LV{kind: lvBlank}
		}
		return x.derefLV(p, pt.Elem())
	}
	x.unsupportedf(e, "lvalue: %T", e)
	return &LV{kind: lvBlank}
}

// derefLV: location *p. Pointers to structs are represented field-wise, so a whole-struct
// location is a pseudo-LV handled by readDeref/writeDeref; for other pointees one heap cell.
func (x *Unit) derefLV(p Val, elem types.Type) *LV {
	srt := x.u.SortOf(elem)
	if isFlatStruct(elem) {
		return &LV{kind: lvHeap, key: structKey(elem), ref: p.T, srt: srt, typ: elem}
	}
	return &LV{kind: lvHeap, key: "ptr:" + string(srt), ref: p.T, srt: srt, typ: elem}
}

func (x *Unit) selLV(st *State, e *ast.SelectorExpr, sel *types.Selection) *LV {
	if sel.Kind() != types.FieldVal {
		x.unsupportedf(e, "lvalue: method value")
		return &LV{kind: lvBlank}
	}
	// base
	var cur *LV
	bt := x.info.TypeOf(e.X)
	if _, ok := under(bt).(*types.Pointer); ok {
		p := x.eval(st, e.X)
		x.nilCheck(st, p.T, e.X)
		cur = &LV{kind: lvBlank, typ: bt, ref: p.T} // pointer value holder
	} else {
		cur = x.lvalue(st, e.X)
	}
	return x.walkFields(st, cur, bt, sel.Index())
}

// nilCheck: in blocks marked nilsafe a field access or method call through a pointer needs the pointer to be non-nil.
func (x *Unit) nilCheck(st *State, ref T, n ast.Expr) {
	if x.inSpec > 0 || x.block == nil || !x.block.Flags["nilsafe"] || x.inlineDepth > 0 {
		return
	}
	if id, ok := ast.Unparen(n).(*ast.Ident); ok && x.recvName() == id.Name {
		return // the receiver of the function under contract is non-nil by assumption
	}
	x.oblige(st, "nil", x.srcOf(n), Cmp(">", ref, IntLit(0)), n)
	x.assume(st, Cmp(">", ref, IntLit(0)))
}

func (x *Unit) recvName() string {
	if x.sig != nil && x.sig.Recv() != nil {
		return x.sig.Recv().Name()
	}
	return ""
}

// isFlatStruct: struct-typed fields of heap objects are inline objects with derived addresses.
func isFlatStruct(t types.Type) bool {
	if t == nil || isNamed(t, "time", "Time") || isNamed(t, "math/big", "Int") {
		return false
	}
	_, ok := under(t).(*types.Struct)
	return ok
}

// fieldAddr is the address of the inline object stored in field `key` of the object at ref.
func (x *Unit) fieldAddr(key string, ref T) T {
	name := "addr_" + mangle(key)
	if _, ok := x.u.funDecls[name]; !ok {
		x.u.DeclFun(name, "(Int) Int")
		x.u.DeclFun("base_"+mangle(key), "(Int) Int")
		x.u.DeclFun("ptag", "(Int) Int")
		x.u.DeclFun("proot", "(Int) Int")
		id := len(x.u.funDecls) + 100
		x.u.axioms = append(x.u.axioms, fmt.Sprintf(
			"(forall ((p Int)) (! (and (= (base_%s (%s p)) p) (= (ptag (%s p)) %d) (= (proot (%s p)) (proot p)) (> (%s p) 0)) :pattern ((%s p))))",
			mangle(key), name, name, id, name, name, name))
		x.u.axiomName = append(x.u.axiomName, "inline-object addresses are injective: "+name)
	}
	return App(SInt, name, ref)
}

func (x *Unit) proot(r T) T {
	x.u.DeclFun("ptag", "(Int) Int")
	x.u.DeclFun("proot", "(Int) Int")
	return App(SInt, "proot", r)
}

// guardAddr is the address of the guarding mutex/once field of the object at ref; the field may sit in an
// embedded struct ("StartSync.startOnce").
func (x *Unit) guardAddr(stt *types.Struct, name, path string, ref T) T {
	addr := ref
	segs := strings.Split(path, ".")
	for i, seg := range segs {
		addr = x.fieldAddr(name+"."+seg, addr)
		if i == len(segs)-1 {
			break
		}
		var ft types.Type
		for j := 0; j < stt.NumFields(); j++ {
			if stt.Field(j).Name() == seg {
				ft = stt.Field(j).Type()
			}
		}
		if ft == nil {
			x.unsupportedf(nil, "guarded_by: no field %s in %s", seg, name)
			return addr
		}
		nst, nname, _ := structOfType(types.NewPointer(ft))
		if nst == nil {
			x.unsupportedf(nil, "guarded_by: %s.%s is not a struct", name, seg)
			return addr
		}
		stt, name = nst, nname
	}
	return addr
}

func structKey(t types.Type) string {
	return "struct:" + mangle(types.TypeString(types.Unalias(t), nil))
}

// walkFields follows a field index path starting from location/pointer cur of type t.
func (x *Unit) walkFields(st *State, cur *LV, t types.Type, path []int) *LV {
	for _, idx := range path {
		stt, name, isPtr := structOfType(t)
		if stt == nil {
			x.unsupportedf(nil, "walkFields: %v is not a struct", t)
			return &LV{kind: lvBlank}
		}
		f := stt.Field(idx)
		var ref T
		haveRef := false
		switch {
		case cur.kind == lvBlank && cur.ref.S != "":
			ref, haveRef = cur.ref, true
		case cur.kind == lvHeap && strings.HasPrefix(cur.key, "struct:"):
			ref, haveRef = cur.ref, true // inline object: its fields live in the heap at its address
		case isPtr:
			ref, haveRef = x.readLV(st, cur).T, true
		}
		if haveRef {
			if mu, guarded := x.eng.guards[name+"."+f.Name()]; guarded && x.inSpec == 0 && x.entry != nil {
				// guarded_by: the object's mutex is held, unless the object was created by this very call
				g := x.ghostGet(st, "lockHeld")
				ga := x.guardAddr(stt, name, mu, ref)
				held := Select(x.u.MapVal(g.T), ga)
				synced := Select(x.u.MapVal(x.ghostGet(st, "syncedWith").T), ga)
				x.oblige(st, "guarded", f.Name()+" needs "+mu, Or(Not(Eq(held, IntLit(0))), synced, Cmp(">", x.proot(ref), x.entry.alloc)), nil)
			}
			if isFlatStruct(f.Type()) {
				cur = &LV{kind: lvHeap, key: structKey(f.Type()), ref: x.fieldAddr(name+"."+f.Name(), ref), srt: x.u.SortOf(f.Type()), typ: f.Type()}
			} else {
				cur = &LV{kind: lvHeap, key: name + "." + f.Name(), ref: ref, srt: x.u.SortOf(f.Type()), typ: f.Type()}
			}
		} else {
			cur = &LV{kind: lvField, parent: cur, fidx: idx, typ: f.Type()}
		}
		t = f.Type()
	}
	return cur
}

// readStructAt assembles the struct value stored field-wise at pointer p.
func (x *Unit) readStructAt(st *State, p T, t types.Type) Val {
	stt, name, _ := structOfType(types.NewPointer(t))
	srt := x.u.SortOf(t)
	args := make([]T, stt.NumFields())
	for i := 0; i < stt.NumFields(); i++ {
		f := stt.Field(i)
		if isFlatStruct(f.Type()) {
			args[i] = x.readStructAt(st, x.fieldAddr(name+"."+f.Name(), p), f.Type()).T
			continue
		}
		h := x.heapGet(st, name+"."+f.Name(), ArraySort(SInt, x.u.SortOf(f.Type())))
		args[i] = Select(h, p)
	}
	return Val{x.u.MkStruct(srt, args), t}
}

func (x *Unit) writeStructAt(st *State, p T, t types.Type, v T) {
	if av, ok := x.atomicView(st, &LV{kind: lvHeap, key: structKey(t), ref: p, typ: t}); ok {
		// an atomic object is only ever stored as its zero value: its cell starts at zero
		x.writeLV(st, av, x.zero(av.typ))
		return
	}
	stt, name, _ := structOfType(types.NewPointer(t))
	for i := 0; i < stt.NumFields(); i++ {
		f := stt.Field(i)
		if isFlatStruct(f.Type()) {
			addr := x.fieldAddr(name+"."+f.Name(), p)
			if av, ok := x.atomicView(st, &LV{kind: lvHeap, key: structKey(f.Type()), ref: addr, typ: f.Type()}); ok {
				// atomics are only ever copied as (zero) initial values
				x.writeLV(st, av, x.zero(av.typ))
				continue
			}
			x.writeStructAt(st, addr, f.Type(), x.u.StructField(v, i))
			continue
		}
		key := name + "." + f.Name()
		h := x.heapGet(st, key, ArraySort(SInt, x.u.SortOf(f.Type())))
		st.heap[key] = x.define("H_"+key, Store(h, p, x.u.StructField(v, i)))
	}
}

// ---------- expressions

func (x *Unit) eval(st *State, e ast.Expr) Val {
	vs := x.evalN(st, e, 1)
	if len(vs) == 0 {
		return Val{x.fresh("void", SInt), nil}
	}
	return vs[0]
}

// evalN evaluates e wanting n values (n=2 enables comma-ok forms).
func (x *Unit) evalN(st *State, e ast.Expr, n int) []Val {
	if tv, ok := x.info.Types[e]; ok {
		if tv.Value != nil {
			return []Val{x.constVal(tv.Value, tv.Type)}
		}
		if tv.IsNil() {
			return []Val{{IntLit(0), types.Typ[types.UntypedNil]}}
		}
	}
	switch e := e.(type) {
	case *ast.ParenExpr:
		return x.evalN(st, e.X, n)
	case *ast.Ident:
		o := x.info.ObjectOf(e)
		switch o := o.(type) {
		case *types.Var:
			return []Val{x.readVar(st, o)}
		case *types.Func:
			return []Val{x.funcValue(o)}
		case *types.Nil:
			return []Val{{IntLit(0), types.Typ[types.UntypedNil]}}
		}
		x.unsupportedf(e, "ident %s (%T)", e.Name, o)
		return []Val{x.freshVal(st, e.Name, x.info.TypeOf(e))}
	case *ast.FuncLit:
		ref := x.fresh("closure", SInt)
		x.fact(Cmp(">", ref, IntLit(0)))
		x.eng.closures[ref.S] = &closure{lit: e, unit: x}
		// the literal's "captures" clauses must hold where the closure is created
		if b := x.eng.blockFor(x.pkg.PkgPath, x.litKey(e)); b != nil {
			for i, cl := range b.ClausesOf("captures") {
				c := x.bodySpecCtx(st, e)
				c.scope = x.pkg.Types.Scope().Innermost(e.Body.Lbrace + 1)
				c.pos = e.Body.Lbrace + 1
				g := x.specEval(st, cl.Expr, c)
				x.oblige(st, "captures", b.Key+":"+clauseLabel(cl, i), g.T, e)
			}
			x.calleesUsed[x.pkg.PkgPath+"."+b.Key] = true
			x.closureBlocks[ref.S] = b
		}
		return []Val{{ref, x.info.TypeOf(e)}}
	case *ast.SelectorExpr:
		sel := x.info.Selections[e]
		if sel == nil {
			o := x.info.ObjectOf(e.Sel)
			switch o := o.(type) {
			case *types.Var:
				return []Val{x.readGlobal(st, o)}
			case *types.Func:
				return []Val{x.funcValue(o)}
			}
			x.unsupportedf(e, "qualified %s", x.srcOf(e))
			return []Val{x.freshVal(st, "q", x.info.TypeOf(e))}
		}
		switch sel.Kind() {
		case types.FieldVal:
			lv := x.selLV(st, e, sel)
			if lv.kind == lvBlank {
				return []Val{x.freshVal(st, "sel", sel.Type())}
			}
			v := x.readLV(st, lv)
			x.assume(st, x.typeInv(st, v, 1))
			return []Val{v}
		default:
			// method value: abstract closure
			recv := x.eval(st, e.X)
			return []Val{x.methodValue(recv, sel.Obj().(*types.Func), sel.Type())}
		}
	case *ast.StarExpr:
		p := x.eval(st, e.X)
		pt, _ := under(p.Typ).(*types.Pointer)
		if pt == nil {
			x.unsupportedf(e, "deref of %v", p.Typ)
			return []Val{x.freshVal(st, "deref", x.info.TypeOf(e))}
		}
		x.nilCheck(st, p.T, e.X)
		if _, ok := under(pt.Elem()).(*types.Struct); ok && !isNamed(pt.Elem(), "time", "Time") {
			return []Val{x.readStructAt(st, p.T, pt.Elem())}
		}
		return []Val{x.readLV(st, x.derefLV(p, pt.Elem()))}
	case *ast.UnaryExpr:
		return x.evalUnary(st, e, n)
	case *ast.BinaryExpr:
		return []Val{x.evalBinary(st, e)}
	case *ast.CallExpr:
		return x.evalCall(st, e, n)
	case *ast.IndexExpr:
		return x.evalIndex(st, e, n)
	case *ast.IndexListExpr:
		return []Val{x.freshVal(st, "inst", x.info.TypeOf(e))}
	case *ast.SliceExpr:
		return []Val{x.evalSlice(st, e)}
	case *ast.CompositeLit:
		return []Val{x.evalComposite(st, e)}
	case *ast.TypeAssertExpr:
		return x.evalTypeAssert(st, e, n)
	case *ast.KeyValueExpr:
		return x.evalN(st, e.Value, n)
	}
	x.unsupportedf(e, "expression %T", e)
	return []Val{x.freshVal(st, "expr", x.info.TypeOf(e))}
}

// methodValue: the bound method recv.m as an abstract closure. For a pointer (or other reference) receiver it is a
// function of the receiver, so that two method values of the same method and object are the same value in contracts.
func (x *Unit) methodValue(recv Val, m *types.Func, typ types.Type) Val {
	var ref T
	if recv.Sort == SInt {
		name := "methval_" + mangle(m.FullName())
		x.u.DeclFun(name, "(Int) Int")
		ref = App(SInt, name, recv.T)
	} else {
		ref = x.fresh("methval", SInt)
	}
	x.fact(Cmp(">", ref, IntLit(0)))
	r := recv
	x.eng.closures[ref.S] = &closure{method: m, recv: &r, unit: x}
	return Val{ref, typ}
}

func (x *Unit) funcValue(o *types.Func) Val {
	name := "fn_" + mangle(o.FullName())
	x.u.DeclFun(name, "() Int")
	x.fact(T{"(> " + name + " 0)", SBool})
	x.eng.closures[name] = &closure{fn: o, unit: x}
	return Val{T{name, SInt}, o.Type()}
}

func (x *Unit) evalUnary(st *State, e *ast.UnaryExpr, n int) []Val {
	switch e.Op {
	case token.AND:
		return []Val{x.addrOf(st, e)}
	case token.ARROW:
		return x.chanRecv(st, e.X, n, e)
	}
	v := x.eval(st, e.X)
	t := x.info.TypeOf(e)
	switch e.Op {
	case token.NOT:
		return []Val{{Not(v.T), t}}
	case token.SUB:
		if v.Sort == SReal {
			return []Val{{App(SReal, "-", v.T), t}}
		}
		return []Val{{App(SInt, "-", v.T), t}}
	case token.ADD:
		return []Val{v}
	case token.XOR:
		return []Val{{x.uf("bitnot", SInt, v.T), t}}
	}
	x.unsupportedf(e, "unary %s", e.Op)
	return []Val{x.freshVal(st, "un", t)}
}

func (x *Unit) uf(name string, ret Sort, args ...T) T {
	var ss []string
	for _, a := range args {
		ss = append(ss, string(a.Sort))
	}
	x.u.DeclFun(name, "("+strings.Join(ss, " ")+") "+string(ret))
	return App(ret, name, args...)
}

func (x *Unit) addrOf(st *State, e *ast.UnaryExpr) Val {
	t := x.info.TypeOf(e)
	switch in := e.X.(type) {
	case *ast.CompositeLit:
		v := x.evalComposite(st, in)
		r := x.alloc(st)
		if _, ok := under(v.Typ).(*types.Struct); ok {
			x.writeStructAt(st, r, v.Typ, v.T)
		} else {
			x.writeLV(st, x.derefLV(Val{r, t}, v.Typ), v)
		}
		return Val{r, t}
	case *ast.Ident:
		o := x.info.ObjectOf(in)
		if ref, ok := x.boxed[o]; ok {
			return Val{ref, t}
		}
		if vr, ok := o.(*types.Var); ok && o.Parent() == o.Pkg().Scope() {
			_ = vr
			name := "addr_" + mangle(globalKey(o))
			x.u.DeclFun(name, "() Int")
			x.fact(T{"(> " + name + " 0)", SBool})
			return Val{T{name, SInt}, t}
		}
	case *ast.SelectorExpr, *ast.IndexExpr:
		// interior pointer: abstract, stable per location text
		x.note("interior pointers (&x.f, &a[i]) are abstract references: reads/writes through them are not connected to the pointee")
		r := x.fresh("interior", SInt)
		x.assume(st, Cmp(">", r, IntLit(0)))
		return Val{r, t}
	}
	x.unsupportedf(e, "address-of %T", e.X)
	return x.freshVal(st, "addr", t)
}

// alloc returns a fresh reference.
func (x *Unit) alloc(st *State) T {
	r := x.define("ref", App(SInt, "+", st.alloc, IntLit(1)))
	st.alloc = r
	x.fact(And(Eq(x.proot(r), r), Eq(App(SInt, "ptag", r), IntLit(0))))
	return r
}

func (x *Unit) evalBinary(st *State, e *ast.BinaryExpr) Val {
	t := x.info.TypeOf(e)
	if e.Op == token.LAND || e.Op == token.LOR {
		l := x.eval(st, e.X)
		a := st.clone()
		b := st.clone()
		if e.Op == token.LAND {
			x.assume(a, l.T)
			x.assume(b, Not(l.T))
		} else {
			x.assume(a, Not(l.T))
			x.assume(b, l.T)
		}
		r := x.eval(a, e.Y)
		*st = *x.merge(a, b)
		if e.Op == token.LAND {
			return Val{And(l.T, r.T), t}
		}
		return Val{Or(l.T, r.T), t}
	}
	a := x.eval(st, e.X)
	b := x.eval(st, e.Y)
	return x.binop(st, e.Op, a, b, t, e)
}

// binop applies a binary operator to evaluated operands. rt may be nil (spec mode).
func (x *Unit) binop(st *State, op token.Token, a, b Val, rt types.Type, n ast.Node) Val {
	// nil handling and interface boxing for comparisons
	if op == token.EQL || op == token.NEQ {
		if a.Typ != nil && isUntypedNil(a.Typ) && b.Typ != nil {
			a = x.nilLike(b)
		} else if b.Typ != nil && isUntypedNil(b.Typ) && a.Typ != nil {
			b = x.nilLike(a)
		} else if a.Sort == SIface && b.Sort != SIface && b.Typ != nil {
			b = x.convert(st, b, a.Typ)
		} else if b.Sort == SIface && a.Sort != SIface && a.Typ != nil {
			a = x.convert(st, a, b.Typ)
		}
		var r T
		if _, ok := x.u.sliceElem[a.Sort]; ok && (isNilSlice(a) || isNilSlice(b)) {
			// s == nil
			o := a
			if isNilSlice(a) {
				o = b
			}
			r = Eq(x.u.SliceCap(o.T), IntLit(0))
		} else if _, ok := x.u.mapKV[a.Sort]; ok {
			o := a
			if a.S == x.zero(a.Typ).S {
				o = b
			}
			r = x.u.MapNil(o.T)
		} else if a.Sort == SIface && (a.S == IfaceNil.S || b.S == IfaceNil.S) {
			o := a
			if a.S == IfaceNil.S {
				o = b
			}
			r = Eq(IfaceTyp(o.T), IntLit(0))
		} else {
			r = Eq(a.T, b.T)
		}
		if op == token.NEQ {
			r = Not(r)
		}
		if rt == nil {
			rt = types.Typ[types.Bool]
		}
		return Val{r, rt}
	}
	if rt == nil {
		rt = a.Typ
		if rt == nil || (b.Typ != nil && isUntypedConst(a.Typ)) {
			rt = b.Typ
		}
	}
	switch op {
	case token.LSS, token.LEQ, token.GTR, token.GEQ:
		sop := map[token.Token]string{token.LSS: "<", token.LEQ: "<=", token.GTR: ">", token.GEQ: ">="}[op]
		if a.Sort == SStr {
			lt := x.uf("gs.lt", SBool, a.T, b.T)
			gt := x.uf("gs.lt", SBool, b.T, a.T)
			switch op {
			case token.LSS:
				return Val{lt, types.Typ[types.Bool]}
			case token.GTR:
				return Val{gt, types.Typ[types.Bool]}
			case token.LEQ:
				return Val{Not(gt), types.Typ[types.Bool]}
			default:
				return Val{Not(lt), types.Typ[types.Bool]}
			}
		}
		return Val{Cmp(sop, a.T, b.T), types.Typ[types.Bool]}
	case token.ADD:
		if a.Sort == SStr {
			return Val{App(SStr, "gs.cat", a.T, b.T), rt}
		}
		return Val{Arith("+", a.T, b.T), rt}
	case token.SUB:
		return Val{Arith("-", a.T, b.T), rt}
	case token.MUL:
		return Val{Arith("*", a.T, b.T), rt}
	case token.QUO:
		if a.Sort == SReal || b.Sort == SReal {
			return Val{Arith("/", a.T, b.T), rt}
		}
		if x.inSpec == 0 {
			x.oblige(st, "div", x.srcOf(n), Not(Eq(b.T, IntLit(0))), n)
		}
		return Val{x.define("quo", goDiv(a.T, b.T)), rt}
	case token.REM:
		if x.inSpec == 0 {
			x.oblige(st, "div", x.srcOf(n), Not(Eq(b.T, IntLit(0))), n)
		}
		return Val{x.define("rem", goRem(a.T, b.T)), rt}
	case token.SHL, token.SHR:
		if k, ok := smallConst(b.T); ok && k >= 0 && k < 63 {
			p := IntLit(int64(1) << uint(k))
			if op == token.SHL {
				return Val{App(SInt, "*", a.T, p), rt}
			}
			return Val{App(SInt, "div", a.T, p), rt}
		}
		name := "shl"
		if op == token.SHR {
			name = "shr"
		}
		return Val{x.uf(name, SInt, a.T, b.T), rt}
	case token.AND, token.OR, token.XOR, token.AND_NOT:
		if a.Sort == SBool {
			break
		}
		name := map[token.Token]string{token.AND: "bitand", token.OR: "bitor", token.XOR: "bitxor", token.AND_NOT: "bitandnot"}[op]
		return Val{x.uf(name, SInt, a.T, b.T), rt}
	}
	x.unsupportedf(n, "binary %s on %s", op, a.Sort)
	return Val{x.fresh("bin", x.u.SortOf(rt)), rt}
}

func isUntypedConst(t types.Type) bool {
	b, ok := t.(*types.Basic)
	return ok && b.Info()&types.IsUntyped != 0
}

func isNilSlice(v Val) bool {
	return strings.Contains(v.S, "mk-Slice") && strings.HasPrefix(v.S, "(mk-Slice") && strings.Contains(v.S, " 0 0 ((as const")
}

func smallConst(t T) (int, bool) {
	var k int
	if _, err := fmt.Sscanf(t.S, "%d", &k); err == nil && fmt.Sprint(k) == t.S {
		return k, true
	}
	return 0, false
}

func (x *Unit) nilLike(v Val) Val {
	return x.zero(v.Typ)
}

func (x *Unit) evalIndex(st *State, e *ast.IndexExpr, n int) []Val {
	bt := x.info.TypeOf(e.X)
	if tv, ok := x.info.Types[e.X]; ok && tv.IsType() {
		return []Val{x.freshVal(st, "inst", x.info.TypeOf(e))}
	}
	if _, ok := x.info.TypeOf(e).(*types.Signature); ok {
		if _, isSig := under(bt).(*types.Signature); isSig {
			return x.evalN(st, e.X, 1) // generic function instantiation
		}
	}
	switch tt := under(bt).(type) {
	case *types.Map:
		m := x.eval(st, e.X)
		k := x.convert(st, x.eval(st, e.Index), tt.Key())
		had := x.mapHas(st, m, k.T)
		v := Ite(had, Select(x.u.MapVal(x.mapContent(st, m)), k.T), x.zero(tt.Elem()).T)
		out := []Val{{x.define("mapget", v), tt.Elem()}}
		x.assume(st, x.typeInv(st, out[0], 1))
		if n == 2 {
			out = append(out, Val{had, types.Typ[types.Bool]})
		}
		return out
	case *types.Slice:
		s := x.eval(st, e.X)
		i := x.eval(st, e.Index)
		x.oblige(st, "index", x.srcOf(e), And(Cmp(">=", i.T, IntLit(0)), Cmp("<", i.T, x.u.SliceLen(s.T))), e)
		v := Val{Select(x.u.SliceArr(s.T), i.T), tt.Elem()}
		x.assume(st, x.typeInv(st, v, 1))
		return []Val{v}
	case *types.Array:
		s := x.eval(st, e.X)
		i := x.eval(st, e.Index)
		x.oblige(st, "index", x.srcOf(e), And(Cmp(">=", i.T, IntLit(0)), Cmp("<", i.T, IntLit(tt.Len()))), e)
		return []Val{{Select(s.T, i.T), tt.Elem()}}
	case *types.Basic: // string
		s := x.eval(st, e.X)
		i := x.eval(st, e.Index)
		x.oblige(st, "index", x.srcOf(e), And(Cmp(">=", i.T, IntLit(0)), Cmp("<", i.T, App(SInt, "gs.len", s.T))), e)
		v := Val{App(SInt, "gs.at", s.T, i.T), types.Typ[types.Byte]}
		x.assume(st, And(Cmp(">=", v.T, IntLit(0)), Cmp("<=", v.T, IntLit(255))))
		return []Val{v}
	case *types.Pointer:
		lv := x.lvalue(st, e)
		return []Val{x.readLV(st, lv)}
	}
	x.unsupportedf(e, "index of %v", bt)
	return []Val{x.freshVal(st, "idx", x.info.TypeOf(e))}
}

func (x *Unit) evalSlice(st *State, e *ast.SliceExpr) Val {
	bt := x.info.TypeOf(e.X)
	rt := x.info.TypeOf(e)
	base := x.eval(st, e.X)
	var lo, hi T
	lo = IntLit(0)
	if e.Low != nil {
		lo = x.eval(st, e.Low).T
	}
	switch tt := under(bt).(type) {
	case *types.Basic: // string
		ln := App(SInt, "gs.len", base.T)
		hi = ln
		if e.High != nil {
			hi = x.eval(st, e.High).T
		}
		x.oblige(st, "slice", x.srcOf(e), And(Cmp("<=", IntLit(0), lo), Cmp("<=", lo, hi), Cmp("<=", hi, ln)), e)
		r := x.define("substr", App(SStr, "gs.sub", base.T, lo, hi))
		x.fact(Imp(And(Cmp("<=", IntLit(0), lo), Cmp("<=", lo, hi), Cmp("<=", hi, ln)), Eq(App(SInt, "gs.len", r), App(SInt, "-", hi, lo))))
		x.strSubFacts(r, base.T, lo, hi)
		return Val{r, rt}
	case *types.Slice:
		ln, cp, arr := x.u.SliceLen(base.T), x.u.SliceCap(base.T), x.u.SliceArr(base.T)
		hi = ln
		if e.High != nil {
			hi = x.eval(st, e.High).T
		}
		mx := cp
		if e.Max != nil {
			mx = x.eval(st, e.Max).T
			x.oblige(st, "slice", x.srcOf(e), And(Cmp("<=", IntLit(0), lo), Cmp("<=", lo, hi), Cmp("<=", hi, mx), Cmp("<=", mx, cp)), e)
		} else {
			x.oblige(st, "slice", x.srcOf(e), And(Cmp("<=", IntLit(0), lo), Cmp("<=", lo, hi), Cmp("<=", hi, cp)), e)
		}
		narr := arr
		if lo.S != "0" {
			narr = x.shiftArr(arr, lo)
		}
		r := x.u.MkSlice(base.Sort, App(SInt, "-", hi, lo), App(SInt, "-", mx, lo), narr)
		return Val{x.define("sl", r), rt}
	case *types.Array:
		hi = IntLit(tt.Len())
		if e.High != nil {
			hi = x.eval(st, e.High).T
		}
		x.oblige(st, "slice", x.srcOf(e), And(Cmp("<=", IntLit(0), lo), Cmp("<=", lo, hi), Cmp("<=", hi, IntLit(tt.Len()))), e)
		srt := x.u.SortOf(rt)
		narr := base.T
		if lo.S != "0" {
			narr = x.shiftArr(base.T, lo)
		}
		return Val{x.u.MkSlice(srt, App(SInt, "-", hi, lo), App(SInt, "-", IntLit(tt.Len()), lo), narr), rt}
	case *types.Pointer:
		x.unsupportedf(e, "slice of pointer to array")
	}
	return x.freshVal(st, "slice", rt)
}

// strSubFacts: characters of a substring, instantiated by a pattern-carrying axiom registered once.
func (x *Unit) strSubFacts(r, base, lo, hi T) {
	x.eng.needSubAxiom = true
}

// shiftArr returns an array b with b[i] = a[i+lo] (a lambda-free encoding through an uninterpreted shift with an axiom).
func (x *Unit) shiftArr(arr, lo T) T {
	es := elemSort(arr.Sort)
	name := "arrshift_" + sortIdent(es)
	if _, ok := x.u.funDecls[name]; !ok {
		x.u.DeclFun(name, fmt.Sprintf("(%s Int) %s", arr.Sort, arr.Sort))
		x.u.axioms = append(x.u.axioms, fmt.Sprintf(
			"(forall ((a %s) (k Int) (i Int)) (! (= (select (%s a k) i) (select a (+ i k))) :pattern ((select (%s a k) i))))",
			arr.Sort, name, name))
		x.u.axiomName = append(x.u.axiomName, name)
	}
	return App(arr.Sort, name, arr, lo)
}

func (x *Unit) evalComposite(st *State, e *ast.CompositeLit) Val {
	t := x.info.TypeOf(e)
	switch tt := under(t).(type) {
	case *types.Struct:
		srt := x.u.SortOf(t)
		args := make([]T, tt.NumFields())
		for i := 0; i < tt.NumFields(); i++ {
			args[i] = x.zero(tt.Field(i).Type()).T
		}
		for i, el := range e.Elts {
			if kv, ok := el.(*ast.KeyValueExpr); ok {
				name := kv.Key.(*ast.Ident).Name
				for j := 0; j < tt.NumFields(); j++ {
					if tt.Field(j).Name() == name {
						args[j] = x.convert(st, x.eval(st, kv.Value), tt.Field(j).Type()).T
					}
				}
			} else {
				args[i] = x.convert(st, x.eval(st, el), tt.Field(i).Type()).T
			}
		}
		return Val{x.define("lit", x.u.MkStruct(srt, args)), t}
	case *types.Slice:
		srt := x.u.SortOf(t)
		z := x.zero(t)
		arr := x.u.SliceArr(z.T)
		arr = T{strings.TrimSpace(arr.S), arr.Sort}
		// constant array of zeros, then stores
		es := x.u.sliceElem[srt]
		cur := T{fmt.Sprintf("((as const (Array Int %s)) %s)", es, x.zero(tt.Elem()).S), ArraySort(SInt, es)}
		idx := int64(0)
		max := int64(0)
		for _, el := range e.Elts {
			ve := el
			if kv, ok := el.(*ast.KeyValueExpr); ok {
				if tv, ok := x.info.Types[kv.Key]; ok && tv.Value != nil {
					k, _ := constant.Int64Val(tv.Value)
					idx = k
				}
				ve = kv.Value
			}
			v := x.convert(st, x.eval(st, ve), tt.Elem())
			cur = Store(cur, IntLit(idx), v.T)
			idx++
			if idx > max {
				max = idx
			}
		}
		return Val{x.define("slit", x.u.MkSlice(srt, IntLit(max), IntLit(max), cur)), t}
	case *types.Array:
		es := x.u.SortOf(tt.Elem())
		cur := T{fmt.Sprintf("((as const (Array Int %s)) %s)", es, x.zero(tt.Elem()).S), ArraySort(SInt, es)}
		idx := int64(0)
		for _, el := range e.Elts {
			ve := el
			if kv, ok := el.(*ast.KeyValueExpr); ok {
				if tv, ok := x.info.Types[kv.Key]; ok && tv.Value != nil {
					k, _ := constant.Int64Val(tv.Value)
					idx = k
				}
				ve = kv.Value
			}
			v := x.convert(st, x.eval(st, ve), tt.Elem())
			cur = Store(cur, IntLit(idx), v.T)
			idx++
		}
		return Val{x.define("alit", cur), t}
	case *types.Map:
		dt := x.u.MapDT(t)
		kv := x.u.mapKV[dt]
		dom := T{fmt.Sprintf("((as const (Array %s Bool)) false)", kv[0]), ArraySort(kv[0], SBool)}
		val := T{fmt.Sprintf("((as const (Array %s %s)) %s)", kv[0], kv[1], x.zero(tt.Elem()).S), ArraySort(kv[0], kv[1])}
		var keys []T
		for _, el := range e.Elts {
			p := el.(*ast.KeyValueExpr)
			k := x.convert(st, x.eval(st, p.Key), tt.Key())
			v := x.convert(st, x.eval(st, p.Value), tt.Elem())
			dom = Store(dom, k.T, True)
			val = Store(val, k.T, v.T)
			keys = append(keys, k.T)
		}
		ln := x.fresh("maplen", SInt)
		x.fact(And(Cmp(">=", ln, IntLit(0)), Cmp("<=", ln, IntLit(int64(len(keys))))))
		if len(keys) > 0 {
			x.fact(Cmp(">=", ln, IntLit(1)))
		}
		return x.newMap(st, t, x.define("mlit", x.u.MkMap(dt, False, ln, dom, val)))
	}
	x.unsupportedf(e, "composite literal of %v", t)
	return x.freshVal(st, "lit", t)
}

func (x *Unit) evalTypeAssert(st *State, e *ast.TypeAssertExpr, n int) []Val {
	v := x.eval(st, e.X)
	if e.Type == nil {
		return []Val{v}
	}
	to := x.info.TypeOf(e.Type)
	ok := x.typeTest(v, to)
	var out Val
	if isIface(to) {
		out = Val{Ite(ok, v.T, IfaceNil), to}
	} else {
		srt := x.u.SortOf(to)
		out = Val{Ite(ok, x.u.Unbox(IfaceVal(v.T), srt), x.zero(to).T), to}
	}
	out.T = x.define("assert", out.T)
	x.reflectLenFact(v, out, ok)
	if n == 2 {
		_, isPtr := under(to).(*types.Pointer)
		_, isMap := under(to).(*types.Map)
		if (isPtr || isMap) && out.Sort == SInt {
			x.note("a pointer obtained from an interface value by a successful type assertion or type switch is non-nil (no typed nil pointers in interfaces)")
			x.assume(st, Imp(ok, Cmp(">", out.T, IntLit(0))))
		}
		return []Val{out, {ok, types.Typ[types.Bool]}}
	}
	x.oblige(st, "typeassert", x.srcOf(e), ok, e)
	x.assume(st, ok)
	x.assume(st, x.typeInv(st, out, 1))
	x.assumeNoTypedNil(st, out)
	return []Val{out}
}

// reflectLenFact: reflect.ValueOf(i).Len() is the length of the slice held by interface value i.
func (x *Unit) reflectLenFact(iface Val, unboxed Val, isType T) {
	if _, isSlice := x.u.sliceElem[unboxed.Sort]; isSlice && iface.Sort == SIface {
		x.fact(Imp(isType, Eq(x.uf("reflectLen", SInt, iface.T), x.u.SliceLen(unboxed.T))))
	}
}

// assumeNoTypedNil: a pointer taken out of an interface value by a successful type test is not nil
// (typed nil pointers are not stored in interfaces: a convention of this code base, listed as an assumption).
func (x *Unit) assumeNoTypedNil(st *State, v Val) {
	_, isPtr := under(v.Typ).(*types.Pointer)
	_, isMap := under(v.Typ).(*types.Map)
	if (isPtr || isMap) && v.Sort == SInt {
		x.note("a pointer obtained from an interface value by a successful type assertion or type switch is non-nil (no typed nil pointers in interfaces)")
		x.assume(st, Cmp(">", v.T, IntLit(0)))
	}
}

// typeTest: does interface value v hold dynamic type `to` (or implement interface `to`)?
func (x *Unit) typeTest(v Val, to types.Type) T {
	if isIface(to) {
		it := under(to).(*types.Interface)
		if it.NumMethods() == 0 {
			return Cmp(">", IfaceTyp(v.T), IntLit(0))
		}
		// static knowledge: if v's static interface type implements `to`, any non-nil value does
		if v.Typ != nil && isIface(v.Typ) && types.Implements(v.Typ, it) {
			return Cmp(">", IfaceTyp(v.T), IntLit(0))
		}
		name := "implements_" + mangle(types.TypeString(to, nil))
		return And(Cmp(">", IfaceTyp(v.T), IntLit(0)), x.uf(name, SBool, IfaceTyp(v.T)))
	}
	return Eq(IfaceTyp(v.T), IntLit(int64(x.u.TypeID(to))))
}

// entryRefFact: a reference stored anywhere in the entry heap was allocated before entry.
func (x *Unit) entryRefFact(lv *LV) {
	if x.binders > 0 || lv.srt != SInt || lv.typ == nil || x.entry == nil {
		return
	}
	switch under(lv.typ).(type) {
	case *types.Pointer, *types.Map, *types.Chan:
	default:
		return
	}
	h0 := x.epochLookup(x.entry.epoch, lv.key, ArraySort(SInt, lv.srt))
	k := h0.S + "@" + lv.ref.S
	if x.entryFacts == nil {
		x.entryFacts = map[string]bool{}
	}
	if x.entryFacts[k] {
		return
	}
	x.entryFacts[k] = true
	v0 := Select(h0, lv.ref)
	// only cells of objects that existed at entry: cells beyond entry.alloc stand for the (arbitrary) contents of objects
	// allocated later by callees whose frame leaves the heap arrays untouched
	x.fact(Imp(Cmp("<=", x.proot(lv.ref), x.entry.alloc), And(Cmp(">=", v0, IntLit(0)), Cmp("<=", x.proot(v0), x.entry.alloc))))
}
