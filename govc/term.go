package main

import (
	"fmt"
	"math/big"
	"strings"
)

// Sort is an SMT-LIB sort, written out.
type Sort string

const (
	SInt   Sort = "Int"
	SBool  Sort = "Bool"
	SReal  Sort = "Real"
	SStr   Sort = "Str"
	SIface Sort = "Iface"
)

// T is an SMT term with its sort.
type T struct {
	S    string
	Sort Sort
}

var (
	True  = T{"true", SBool}
	False = T{"false", SBool}
)

func (t T) IsTrue() bool  { return t.S == "true" }
func (t T) IsFalse() bool { return t.S == "false" }

func App(sort Sort, op string, args ...T) T {
	var b strings.Builder
	b.WriteByte('(')
	b.WriteString(op)
	for _, a := range args {
		b.WriteByte(' ')
		b.WriteString(a.S)
	}
	b.WriteByte(')')
	return T{b.String(), sort}
}

func IntLit(n int64) T {
	if n < 0 {
		return T{fmt.Sprintf("(- %d)", -n), SInt}
	}
	return T{fmt.Sprintf("%d", n), SInt}
}

func BigIntLit(n *big.Int) T {
	if n.Sign() < 0 {
		return T{"(- " + new(big.Int).Neg(n).String() + ")", SInt}
	}
	return T{n.String(), SInt}
}

func RatLit(r *big.Rat) T {
	neg := r.Sign() < 0
	a := new(big.Rat).Abs(r)
	var s string
	if a.IsInt() {
		s = a.Num().String() + ".0"
	} else {
		s = "(/ " + a.Num().String() + ".0 " + a.Denom().String() + ".0)"
	}
	if neg {
		s = "(- " + s + ")"
	}
	return T{s, SReal}
}

func BoolLit(b bool) T {
	if b {
		return True
	}
	return False
}

func And(ts ...T) T {
	var out []T
	for _, t := range ts {
		if t.IsTrue() {
			continue
		}
		if t.IsFalse() {
			return False
		}
		out = append(out, t)
	}
	switch len(out) {
	case 0:
		return True
	case 1:
		return out[0]
	}
	return App(SBool, "and", out...)
}

func Or(ts ...T) T {
	var out []T
	for _, t := range ts {
		if t.IsFalse() {
			continue
		}
		if t.IsTrue() {
			return True
		}
		out = append(out, t)
	}
	switch len(out) {
	case 0:
		return False
	case 1:
		return out[0]
	}
	return App(SBool, "or", out...)
}

func Not(t T) T {
	if t.IsTrue() {
		return False
	}
	if t.IsFalse() {
		return True
	}
	if strings.HasPrefix(t.S, "(not ") {
		return T{t.S[5 : len(t.S)-1], SBool}
	}
	return App(SBool, "not", t)
}

func Imp(a, b T) T {
	if a.IsTrue() {
		return b
	}
	if a.IsFalse() || b.IsTrue() {
		return True
	}
	return App(SBool, "=>", a, b)
}

func Ite(c, a, b T) T {
	if c.IsTrue() {
		return a
	}
	if c.IsFalse() {
		return b
	}
	if a.S == b.S {
		return a
	}
	return App(a.Sort, "ite", c, a, b)
}

func Eq(a, b T) T {
	if a.S == b.S {
		return True
	}
	a, b = coerce(a, b)
	return App(SBool, "=", a, b)
}

// coerce makes Int/Real operands agree (Int literal/term -> to_real).
func coerce(a, b T) (T, T) {
	if a.Sort == SReal && b.Sort == SInt {
		return a, ToReal(b)
	}
	if a.Sort == SInt && b.Sort == SReal {
		return ToReal(a), b
	}
	return a, b
}

func ToReal(a T) T {
	if a.Sort == SReal {
		return a
	}
	return App(SReal, "to_real", a)
}

func Arith(op string, a, b T) T {
	a, b = coerce(a, b)
	return App(a.Sort, op, a, b)
}

func Cmp(op string, a, b T) T {
	a, b = coerce(a, b)
	return App(SBool, op, a, b)
}

func Select(arr, idx T) T {
	return App(elemSort(arr.Sort), "select", arr, idx)
}

func Store(arr, idx, v T) T {
	return App(arr.Sort, "store", arr, idx, v)
}

func ArraySort(k, v Sort) Sort { return Sort("(Array " + string(k) + " " + string(v) + ")") }

// elemSort returns V for "(Array K V)".
func elemSort(s Sort) Sort {
	str := string(s)
	if !strings.HasPrefix(str, "(Array ") {
		panic("elemSort: not an array sort: " + str)
	}
	inner := str[len("(Array ") : len(str)-1]
	// split at top-level space after the first sort
	depth := 0
	for i, c := range inner {
		switch c {
		case '(':
			depth++
		case ')':
			depth--
		case ' ':
			if depth == 0 {
				return Sort(inner[i+1:])
			}
		}
	}
	panic("elemSort: malformed " + str)
}

func keySort(s Sort) Sort {
	str := string(s)
	inner := str[len("(Array ") : len(str)-1]
	depth := 0
	for i, c := range inner {
		switch c {
		case '(':
			depth++
		case ')':
			depth--
		case ' ':
			if depth == 0 {
				return Sort(inner[:i])
			}
		}
	}
	panic("keySort: malformed " + str)
}

// goTruncDiv encodes Go's truncated integer division with SMT's floor-style div.
func goDiv(a, b T) T {
	// ite(a>=0, a div b, -((-a) div b))  -- SMT div rounds so that remainder is non-negative
	neg := App(SInt, "-", a)
	return Ite(Cmp(">=", a, IntLit(0)), App(SInt, "div", a, b), App(SInt, "-", App(SInt, "div", neg, b)))
}

func goRem(a, b T) T {
	// a - b*goDiv(a,b)
	return App(SInt, "-", a, App(SInt, "*", b, goDiv(a, b)))
}

// truncReal: Go float->int conversion (toward zero).
func truncReal(x T) T {
	zero := T{"0.0", SReal}
	return Ite(Cmp(">=", x, zero), App(SInt, "to_int", x), App(SInt, "-", App(SInt, "to_int", App(SReal, "-", x))))
}

func mangle(s string) string {
	var b strings.Builder
	for _, c := range s {
		switch {
		case c >= 'a' && c <= 'z', c >= 'A' && c <= 'Z', c >= '0' && c <= '9', c == '_':
			b.WriteRune(c)
		case c == '.' || c == '/':
			b.WriteByte('_')
		case c == '*':
			b.WriteString("P")
		case c == '[':
			b.WriteString("L")
		case c == ']':
			b.WriteString("R")
		case c == ' ':
		default:
			b.WriteString(fmt.Sprintf("x%02x", c))
		}
	}
	return b.String()
}
