package main

import (
	"encoding/json"
	"fmt"
	"os"
	"os/exec"
	"path/filepath"
	"sort"
	"strings"
)

// runCorpus (thorough tier): every kept property-breaking change of this property (seeded/<id>, selftest/<id>) is applied
// to a scratch copy of the repository's working tree outside /repo and /verif, the property's check is run on the copy and
// must fail. The copy is removed afterwards. A missed change is reported in the evidence; it never changes the exit code
// (the tree under test is unchanged).
func runCorpus(prop, repo, verif string) map[string]any {
	out := map[string]any{}
	var detected, missed, skipped []string
	type item struct{ dir, name string }
	var items []item
	for _, sub := range []string{"seeded", "selftest"} {
		ents, _ := os.ReadDir(filepath.Join(verif, sub))
		for _, e := range ents {
			mb, err := os.ReadFile(filepath.Join(verif, sub, e.Name(), "meta.json"))
			if err != nil {
				continue
			}
			var meta struct {
				Property string `json:"property"`
			}
			json.Unmarshal(mb, &meta)
			if meta.Property == prop {
				items = append(items, item{filepath.Join(verif, sub, e.Name()), sub + "/" + e.Name()})
			}
		}
	}
	if len(items) == 0 {
		out["note"] = "no kept change is filed under this property"
		return out
	}
	scratch, err := os.MkdirTemp("", "govc-corpus-")
	if err != nil {
		out["note"] = "cannot create scratch directory: " + err.Error()
		return out
	}
	defer os.RemoveAll(scratch)
	self, _ := os.Executable()
	for _, it := range items {
		cp := filepath.Join(scratch, "repo")
		os.RemoveAll(cp)
		if b, err := exec.Command("rsync", "-a", "--exclude", ".git", repo+"/", cp+"/").CombinedOutput(); err != nil {
			skipped = append(skipped, it.name+": copy failed: "+firstLines(string(b), 1))
			continue
		}
		pc := exec.Command("patch", "-p1", "-s", "-f", "-i", filepath.Join(it.dir, "patch.diff"))
		pc.Dir = cp
		if b, err := pc.CombinedOutput(); err != nil {
			skipped = append(skipped, it.name+": patch does not apply to the current tree: "+firstLines(string(b), 1))
			continue
		}
		c := exec.Command(self, "check", "--property", prop, "--tier", "quick", "--repo", cp, "--verif", verif, "--no-evidence", "--no-replay", "--out", filepath.Join(scratch, "out"))
		b, _ := c.CombinedOutput()
		code := 0
		if c.ProcessState != nil {
			code = c.ProcessState.ExitCode()
		}
		if code != 0 {
			first := ""
			for _, l := range strings.Split(string(b), "\n") {
				if strings.Contains(l, "failed obligation:") || strings.HasPrefix(l, "UNSUPPORTED") || strings.HasPrefix(l, "CHECK-ERROR") {
					first = strings.TrimSpace(l)
					break
				}
			}
			detected = append(detected, it.name+" -> "+truncate(first, 200))
		} else {
			missed = append(missed, it.name)
		}
	}
	// the must-pass part: behaviour-preserving edits of this property's code (harmless/<id>): the check should still pass.
	// An alarm here is a false alarm of the machinery (a contract that does not survive the refactoring), listed by name.
	var okPass, okAlarm []string
	if ents, err := os.ReadDir(filepath.Join(verif, "harmless")); err == nil {
		for _, e := range ents {
			dir := filepath.Join(verif, "harmless", e.Name())
			mb, err := os.ReadFile(filepath.Join(dir, "meta.json"))
			if err != nil {
				continue
			}
			var meta struct {
				Property string `json:"property"`
			}
			json.Unmarshal(mb, &meta)
			if meta.Property != prop {
				continue
			}
			cp := filepath.Join(scratch, "repo")
			os.RemoveAll(cp)
			if b, err := exec.Command("rsync", "-a", "--exclude", ".git", repo+"/", cp+"/").CombinedOutput(); err != nil {
				skipped = append(skipped, "harmless/"+e.Name()+": copy failed: "+firstLines(string(b), 1))
				continue
			}
			pc := exec.Command("patch", "-p1", "-s", "-f", "-i", filepath.Join(dir, "patch.diff"))
			pc.Dir = cp
			if b, err := pc.CombinedOutput(); err != nil {
				skipped = append(skipped, "harmless/"+e.Name()+": patch does not apply to the current tree: "+firstLines(string(b), 1))
				continue
			}
			c := exec.Command(self, "check", "--property", prop, "--tier", "quick", "--repo", cp, "--verif", verif, "--no-evidence", "--no-replay", "--out", filepath.Join(scratch, "out"))
			b, _ := c.CombinedOutput()
			if c.ProcessState != nil && c.ProcessState.ExitCode() == 0 {
				okPass = append(okPass, "harmless/"+e.Name())
				continue
			}
			first := ""
			for _, l := range strings.Split(string(b), "\n") {
				if strings.Contains(l, "failed obligation:") || strings.HasPrefix(l, "UNSUPPORTED") || strings.HasPrefix(l, "CHECK-ERROR") {
					first = strings.TrimSpace(l)
					break
				}
			}
			okAlarm = append(okAlarm, "harmless/"+e.Name()+" -> "+truncate(first, 200))
		}
	}
	if len(okPass)+len(okAlarm) > 0 {
		out["must_pass"] = map[string]any{
			"passed":       okPass,
			"false_alarms": okAlarm,
			"summary":      fmt.Sprintf("%d of %d behaviour-preserving edits of this property's code leave the check passing", len(okPass), len(okPass)+len(okAlarm)),
		}
	}
	sort.Strings(detected)
	out["detected"] = detected
	out["missed"] = missed
	out["skipped"] = skipped
	out["summary"] = fmt.Sprintf("%d of %d kept changes of this property make the check fail", len(detected), len(items)-len(skipped))
	return out
}
