package main

import (
	"fmt"
	"go/ast"
	"go/constant"
	"go/token"
	"go/types"
	"strconv"
	"strings"
)

// specCtx is the naming environment of a contract expression.
type specCtx struct {
	names map[string]Val
	old   *State
	pkg   *types.Package
	scope *types.Scope // innermost scope for program locals (body contexts); may be nil
	pos   token.Pos
	args  map[string]Val
	what  string
}

func (c *specCtx) with(name string, v Val) *specCtx {
	n := *c
	n.names = make(map[string]Val, len(c.names)+1)
	for k, vv := range c.names {
		n.names[k] = vv
	}
	n.names[name] = v
	return &n
}

func (x *Unit) specErr(e ast.Node, format string, a ...any) {
	x.specErrors = append(x.specErrors, fmt.Sprintf("%s: contract expression %q: %s", x.name, x.srcOf(e), fmt.Sprintf(format, a...)))
}

// specEval evaluates a contract expression in state st.
func (x *Unit) specEval(st *State, e ast.Expr, c *specCtx) Val {
	x.inSpec++
	defer func() { x.inSpec-- }()
	return x.sp(st, e, c)
}

var realT = types.Typ[types.Float64]
var intT = types.Typ[types.Int]
var boolT = types.Typ[types.Bool]

func (x *Unit) sp(st *State, e ast.Expr, c *specCtx) Val {
	switch e := e.(type) {
	case *ast.ParenExpr:
		return x.sp(st, e.X, c)
	case *ast.BasicLit:
		switch e.Kind {
		case token.INT:
			cv := constant.MakeFromLiteral(e.Value, e.Kind, 0)
			return x.constVal(cv, types.Typ[types.UntypedInt])
		case token.FLOAT:
			cv := constant.MakeFromLiteral(e.Value, e.Kind, 0)
			return x.constVal(cv, types.Typ[types.UntypedFloat])
		case token.STRING:
			s, _ := strconv.Unquote(e.Value)
			return Val{x.u.StrLit(s), types.Typ[types.String]}
		case token.CHAR:
			cv := constant.MakeFromLiteral(e.Value, e.Kind, 0)
			return x.constVal(cv, types.Typ[types.UntypedRune])
		}
	case *ast.Ident:
		return x.spIdent(st, e, c)
	case *ast.UnaryExpr:
		v := x.sp(st, e.X, c)
		switch e.Op {
		case token.NOT:
			return Val{Not(v.T), boolT}
		case token.SUB:
			return Val{App(v.Sort, "-", v.T), v.Typ}
		case token.ADD:
			return v
		}
	case *ast.BinaryExpr:
		var a, b Val
		if isResultOf(e.X) && !isResultOf(e.Y) {
			b = x.sp(st, e.Y, c)
			saved := x.witnessHint
			x.witnessHint = b.Typ
			if b.Typ != nil && isUntypedNil(b.Typ) {
				x.witnessHint = types.Universe.Lookup("error").Type()
			}
			a = x.sp(st, e.X, c)
			x.witnessHint = saved
		} else {
			a = x.sp(st, e.X, c)
			saved := x.witnessHint
			if isResultOf(e.Y) {
				x.witnessHint = a.Typ
			}
			b = x.sp(st, e.Y, c)
			x.witnessHint = saved
		}
		switch e.Op {
		case token.LAND:
			return Val{And(a.T, b.T), boolT}
		case token.LOR:
			return Val{Or(a.T, b.T), boolT}
		}
		return x.binop(st, e.Op, a, b, nil, e)
	case *ast.SelectorExpr:
		if id, ok := e.X.(*ast.Ident); ok {
			if _, isName := c.names[id.Name]; !isName && x.lookupLocal(st, id.Name, c) == nil {
				if p := findImport(c.pkg, id.Name); p != nil {
					o := p.Scope().Lookup(e.Sel.Name)
					if o == nil {
						x.specErr(e, "no %s in package %s", e.Sel.Name, p.Path())
						return Val{x.fresh("bad", SInt), nil}
					}
					return x.spObject(st, o, e)
				}
			}
		}
		v := x.sp(st, e.X, c)
		return x.spField(st, v, e.Sel.Name, c, e)
	case *ast.IndexExpr:
		b := x.sp(st, e.X, c)
		i := x.sp(st, e.Index, c)
		return x.spIndex(st, b, i, e)
	case *ast.StarExpr:
		p := x.sp(st, e.X, c)
		pt, _ := under(p.Typ).(*types.Pointer)
		if pt == nil {
			x.specErr(e, "deref of non-pointer")
			return Val{x.fresh("bad", SInt), nil}
		}
		if av, ok := x.atomicView(st, &LV{kind: lvHeap, key: structKey(pt.Elem()), ref: p.T, typ: pt.Elem()}); ok {
			return x.readLV(st, av) // *p for a pointer to an atomic: the value of its cell
		}
		if _, ok := under(pt.Elem()).(*types.Struct); ok && !isNamed(pt.Elem(), "time", "Time") {
			return x.readStructAt(st, p.T, pt.Elem())
		}
		return x.readLV(st, x.derefLV(p, pt.Elem()))
	case *ast.TypeAssertExpr:
		v := x.sp(st, e.X, c)
		to := x.resolveType(e.Type, c.pkg)
		if to == nil {
			x.specErr(e, "cannot resolve type")
			return Val{x.fresh("bad", SInt), nil}
		}
		if isIface(to) {
			return Val{v.T, to}
		}
		return Val{x.u.Unbox(IfaceVal(v.T), x.u.SortOf(to)), to}
	case *ast.CallExpr:
		return x.spCall(st, e, c)
	case *ast.SliceExpr:
		b := x.sp(st, e.X, c)
		lo := IntLit(0)
		if e.Low != nil {
			lo = x.sp(st, e.Low, c).T
		}
		if b.Sort == SStr {
			hi := App(SInt, "gs.len", b.T)
			if e.High != nil {
				hi = x.sp(st, e.High, c).T
			}
			return Val{App(SStr, "gs.sub", b.T, lo, hi), b.Typ}
		}
		if _, ok := x.u.sliceElem[b.Sort]; ok {
			hi := x.u.SliceLen(b.T)
			if e.High != nil {
				hi = x.sp(st, e.High, c).T
			}
			arr := x.u.SliceArr(b.T)
			if lo.S != "0" {
				arr = x.shiftArr(arr, lo)
			}
			return Val{x.u.MkSlice(b.Sort, App(SInt, "-", hi, lo), App(SInt, "-", x.u.SliceCap(b.T), lo), arr), b.Typ}
		}
	}
	x.specErr(e, "unsupported form %T", e)
	return Val{x.fresh("bad", SInt), nil}
}

// importAlias: per package, which import path a package name stands for in its contract file ("use" directive).
var importAlias = map[string]map[string]string{}

func findImport(pkg *types.Package, name string) *types.Package {
	if pkg == nil {
		return nil
	}
	if path, ok := importAlias[pkg.Path()][name]; ok {
		for _, p := range pkg.Imports() {
			if p.Path() == path {
				return p
			}
		}
	}
	for _, p := range pkg.Imports() {
		if p.Name() == name {
			return p
		}
	}
	return nil
}

func (x *Unit) lookupLocal(st *State, name string, c *specCtx) types.Object {
	if c.scope == nil {
		return nil
	}
	_, o := c.scope.LookupParent(name, c.pos)
	if o == nil || o.Parent() == types.Universe || (o.Pkg() != nil && o.Parent() == o.Pkg().Scope()) {
		// inside a helper executed in place, a clause of the caller's contract names the caller's variables
		for i := len(x.inlineSites) - 1; i >= 0; i-- {
			site := x.inlineSites[i]
			if sc := site.pkg.Scope().Innermost(site.call.Pos()); sc != nil {
				if _, o2 := sc.LookupParent(name, site.call.End()); o2 != nil && o2.Parent() != types.Universe && !(o2.Pkg() != nil && o2.Parent() == o2.Pkg().Scope()) {
					if _, isPkg := o2.(*types.PkgName); !isPkg {
						return o2
					}
				}
			}
		}
	}
	if o == nil {
		return nil
	}
	if o.Parent() == types.Universe {
		return nil
	}
	if o.Pkg() != nil && o.Parent() == o.Pkg().Scope() {
		return nil // package level: handled separately
	}
	if _, ok := o.(*types.PkgName); ok {
		return nil
	}
	return o
}

func (x *Unit) spIdent(st *State, e *ast.Ident, c *specCtx) Val {
	if v, ok := c.names[e.Name]; ok {
		return v
	}
	if v, ok := st.spec[e.Name]; ok {
		return v
	}
	switch e.Name {
	case "true":
		return Val{True, boolT}
	case "false":
		return Val{False, boolT}
	case "nil":
		return Val{IntLit(0), types.Typ[types.UntypedNil]}
	case "now":
		return x.ghostGet(st, "now")
	}
	if o := x.lookupLocal(st, e.Name, c); o != nil {
		if v, ok := o.(*types.Var); ok {
			return x.readVar(st, v)
		}
	}
	if g, ok := x.eng.ghostDecls[e.Name]; ok {
		_ = g
		return x.ghostGet(st, e.Name)
	}
	if c.pkg != nil {
		if o := c.pkg.Scope().Lookup(e.Name); o != nil {
			return x.spObject(st, o, e)
		}
	}
	if o := types.Universe.Lookup(e.Name); o != nil {
		if cn, ok := o.(*types.Const); ok {
			return x.constVal(cn.Val(), cn.Type())
		}
	}
	if v := x.renamedVar(e.Name); v != nil {
		x.note(fmt.Sprintf("contract name %s of %s read as the variable now called %s (renamed since the contract was written)", e.Name, x.name, v.Name()))
		return x.readVar(st, v)
	}
	x.specErr(e, "unknown name %s", e.Name)
	return Val{x.fresh("bad", SInt), nil}
}

func (x *Unit) spObject(st *State, o types.Object, e ast.Node) Val {
	switch o := o.(type) {
	case *types.Const:
		return x.constVal(o.Val(), o.Type())
	case *types.Var:
		return x.readGlobal(st, o)
	case *types.Func:
		return x.funcValue(o)
	}
	x.specErr(e, "cannot use %v as a value", o)
	return Val{x.fresh("bad", SInt), nil}
}

func (x *Unit) ghostGet(st *State, name string) Val {
	if v, ok := st.ghost[name]; ok {
		return v
	}
	if v, ok := x.entry.ghost[name]; ok {
		st.ghost[name] = v
		return v
	}
	g := x.eng.ghostDecls[name]
	var t types.Type = intT
	if g != nil {
		t = g.typ
	}
	srt := x.u.SortOf(t)
	if _, isMap := under(t).(*types.Map); isMap {
		srt = x.u.MapDT(t) // ghost maps are values
	}
	v := Val{x.fresh("G0_"+name, srt), t}
	x.entry.ghost[name] = v
	x.inputs = append(x.inputs, v.S)
	st.ghost[name] = v
	return v
}

// spField selects a field by name from a struct value or pointer to struct.
func (x *Unit) spField(st *State, v Val, name string, c *specCtx, e ast.Node) Val {
	if v.Typ == nil {
		x.specErr(e, "selector on untyped value")
		return Val{x.fresh("bad", SInt), nil}
	}
	obj, path, _ := types.LookupFieldOrMethod(v.Typ, true, c.pkgOf(v.Typ), name)
	if m, ok := obj.(*types.Func); ok && len(path) == 1 && !isIface(v.Typ) {
		// a method value (identity only: the same method of the same object)
		return x.methodValue(v, m, m.Type())
	}
	if _, ok := obj.(*types.Var); !ok {
		x.specErr(e, "no field %s in %v", name, v.Typ)
		return Val{x.fresh("bad", SInt), nil}
	}
	r := x.readPath(st, v, path)
	x.specTypingFacts(r)
	return r
}

// specTypingFacts: state-independent facts of a value read in a contract (sound by Go's type system).
func (x *Unit) specTypingFacts(r Val) {
	if x.binders > 0 || r.Typ == nil {
		return
	}
	if r.Sort == SInt && isUnsigned(r.Typ) {
		x.fact(Cmp(">=", r.T, IntLit(0)))
	}
	if _, isSlice := x.u.sliceElem[r.Sort]; isSlice {
		x.fact(And(Cmp(">=", x.u.SliceLen(r.T), IntLit(0)), Cmp(">=", x.u.SliceCap(r.T), x.u.SliceLen(r.T))))
	}
}

// pkgOf: unexported fields are looked up relative to the package that declares the type.
func (c *specCtx) pkgOf(t types.Type) *types.Package {
	t = types.Unalias(t)
	if p, ok := t.(*types.Pointer); ok {
		t = types.Unalias(p.Elem())
	}
	if n, ok := t.(*types.Named); ok && n.Obj().Pkg() != nil {
		return n.Obj().Pkg()
	}
	return c.pkg
}

func (x *Unit) readPath(st *State, v Val, path []int) Val {
	var cur *LV
	if _, ok := under(v.Typ).(*types.Pointer); ok {
		cur = &LV{kind: lvBlank, ref: v.T, typ: v.Typ}
	} else {
		// struct value: plain datatype selection
		for _, idx := range path {
			stt, _, isPtr := structOfType(v.Typ)
			if stt == nil {
				return Val{x.fresh("bad", SInt), nil}
			}
			if isPtr {
				return x.readPath(st, v, path)
			}
			f := stt.Field(idx)
			v = Val{x.u.StructField(v.T, idx), f.Type()}
			path = path[1:]
			if _, ok := under(v.Typ).(*types.Pointer); ok && len(path) > 0 {
				return x.readPath(st, v, path)
			}
		}
		return v
	}
	lv := x.walkFields(st, cur, v.Typ, path)
	if av, ok := x.atomicView(st, lv); ok {
		return x.readLV(st, av)
	}
	r := x.readLV(st, lv)
	// state-independent typing facts of the value read (sound by Go's type system)
	if ct, ok := under(r.Typ).(*types.Chan); ok && x.binders == 0 {
		x.u.DeclFun("chantype", "(Int) Int")
		x.fact(Or(Eq(r.T, IntLit(0)), Eq(App(SInt, "chantype", r.T), IntLit(int64(x.u.TypeID(ct.Elem()))))))
	}
	// references stored in a state were allocated by the time of that state
	if x.binders == 0 && r.Sort == SInt {
		switch under(r.Typ).(type) {
		case *types.Pointer, *types.Map, *types.Chan:
			x.fact(And(Cmp(">=", r.T, IntLit(0)), Cmp("<=", x.proot(r.T), st.alloc)))
		}
	}
	return r
}

// atomicView: a field of an atomic type is seen in contracts as the value of its cell.
func (x *Unit) atomicView(st *State, lv *LV) (*LV, bool) {
	if lv == nil || lv.kind != lvHeap || !strings.HasPrefix(lv.key, "struct:") {
		return nil, false
	}
	tn := types.TypeString(types.Unalias(lv.typ), nil)
	if tn == "sync.Once" {
		return &LV{kind: lvHeap, key: "atomic:sync_Once", ref: lv.ref, srt: SBool, typ: boolT}, true
	}
	if !strings.HasPrefix(tn, "go.uber.org/atomic.") && !strings.HasPrefix(tn, "sync/atomic.") {
		return nil, false
	}
	var vt types.Type = types.Typ[types.Int64]
	srt := SInt
	switch {
	case strings.HasSuffix(tn, ".Bool"):
		vt, srt = boolT, SBool
	case strings.HasSuffix(tn, ".String"):
		vt, srt = types.Typ[types.String], SStr
	case strings.HasSuffix(tn, ".Float64"):
		vt, srt = realT, SReal
	case strings.HasSuffix(tn, ".Time"):
		vt, srt = intT, SInt
	}
	return &LV{kind: lvHeap, key: "atomic:" + mangle(tn), ref: lv.ref, srt: srt, typ: vt}, true
}

func (x *Unit) spIndex(st *State, b, i Val, e ast.Node) Val {
	if es, ok := x.u.sliceElem[b.Sort]; ok {
		_ = es
		var et types.Type
		if s, ok := under(b.Typ).(*types.Slice); ok {
			et = s.Elem()
		}
		return Val{Select(x.u.SliceArr(b.T), i.T), et}
	}
	if mt, ok := under(b.Typ).(*types.Map); ok && b.Sort == SInt {
		k := x.convert(st, i, mt.Key())
		return Val{Select(x.u.MapVal(x.mapContent(st, b)), k.T), mt.Elem()}
	}
	if kv, ok := x.u.mapKV[b.Sort]; ok {
		var et, kt types.Type
		if m, ok := under(b.Typ).(*types.Map); ok {
			et = m.Elem()
			kt = m.Key()
		}
		k := i
		if kt != nil {
			k = x.convert(st, i, kt)
		}
		_ = kv
		return Val{Select(x.u.MapVal(b.T), k.T), et}
	}
	if b.Sort == SStr {
		return Val{App(SInt, "gs.at", b.T, i.T), types.Typ[types.Byte]}
	}
	if strings.HasPrefix(string(b.Sort), "(Array ") {
		var et types.Type
		if a, ok := under(b.Typ).(*types.Array); ok {
			et = a.Elem()
		}
		return Val{Select(b.T, i.T), et}
	}
	x.specErr(e, "index of sort %s", b.Sort)
	return Val{x.fresh("bad", SInt), nil}
}

func (x *Unit) spCall(st *State, e *ast.CallExpr, c *specCtx) Val {
	name := ""
	switch f := e.Fun.(type) {
	case *ast.Ident:
		name = f.Name
	case *ast.SelectorExpr:
		name = x.srcOf(f)
	}
	arg := func(i int) Val { return x.sp(st, e.Args[i], c) }
	switch name {
	case "old":
		if c.old == nil {
			x.specErr(e, "old() not available here")
			return arg(0)
		}
		return x.sp(c.old, e.Args[0], c)
	case "iter":
		if x.iterState == nil {
			x.specErr(e, "iter() is only available in 'loop K step' clauses")
			return arg(0)
		}
		return x.sp(x.iterState, e.Args[0], c)
	case "sendready":
		ch, t := arg(0), arg(1)
		return Val{x.uf("chan_sendready", SBool, ch.T, t.T), boolT}
	case "parent":
		return Val{x.uf("ctxparent", SIface, arg(0).T), arg(0).Typ}
	case "cancels":
		// cancels(f): the context that the cancel function f (from context.WithCancel/WithTimeout/...) cancels
		return Val{x.uf("cancelctx", SIface, arg(0).T), x.ctxType()}
	case "sent":
		g := x.ghostGet(st, "chanSent")
		return Val{Select(x.u.MapVal(g.T), arg(0).T), intT}
	case "closed":
		g := x.ghostGet(st, "chanClosed")
		return Val{Select(x.u.MapVal(g.T), arg(0).T), boolT}
	case "imp":
		return Val{Imp(arg(0).T, arg(1).T), boolT}
	case "iff":
		return Val{Eq(arg(0).T, arg(1).T), boolT}
	case "ite":
		a, b := arg(1), arg(2)
		at, bt := coerce(a.T, b.T)
		t := a.Typ
		if t == nil || isUntypedConst(t) {
			t = b.Typ
		}
		return Val{Ite(arg(0).T, at, bt), t}
	case "forall", "exists":
		// forall(i, lo, hi, P)  /  forall(i, P)
		id, ok := e.Args[0].(*ast.Ident)
		if !ok {
			x.specErr(e, "first argument must be an identifier")
			return Val{True, boolT}
		}
		x.nfresh++
		bv := T{fmt.Sprintf("%s!q%d", id.Name, x.nfresh), SInt}
		c2 := c.with(id.Name, Val{bv, intT})
		x.binders++
		var body, rng T
		if len(e.Args) == 4 {
			lo := x.sp(st, e.Args[1], c).T
			hi := x.sp(st, e.Args[2], c).T
			rng = And(Cmp("<=", lo, bv), Cmp("<", bv, hi))
			body = x.sp(st, e.Args[3], c2).T
		} else {
			rng = True
			body = x.sp(st, e.Args[len(e.Args)-1], c2).T
		}
		x.binders--
		if name == "forall" {
			return Val{T{fmt.Sprintf("(forall ((%s Int)) %s)", bv.S, Imp(rng, body).S), SBool}, boolT}
		}
		return Val{T{fmt.Sprintf("(exists ((%s Int)) %s)", bv.S, And(rng, body).S), SBool}, boolT}
	case "forall_t", "exists_t":
		// forall_t(k, Type, P): quantification over a Go type
		id := e.Args[0].(*ast.Ident)
		t := x.resolveType(e.Args[1], c.pkg)
		if t == nil {
			x.specErr(e, "cannot resolve type")
			return Val{True, boolT}
		}
		x.nfresh++
		bv := T{fmt.Sprintf("%s!q%d", id.Name, x.nfresh), x.u.SortOf(t)}
		x.binders++
		body := x.sp(st, e.Args[2], c.with(id.Name, Val{bv, t})).T
		x.binders--
		q := "forall"
		if name == "exists_t" {
			q = "exists"
		}
		return Val{T{fmt.Sprintf("(%s ((%s %s)) %s)", q, bv.S, bv.Sort, body.S), SBool}, boolT}
	case "floor":
		return Val{App(SInt, "to_int", ToReal(arg(0).T)), intT}
	case "trunc":
		return Val{truncReal(ToReal(arg(0).T)), intT}
	case "real", "float64":
		return Val{ToReal(arg(0).T), realT}
	case "int", "int64", "int32", "uint32", "uint64", "uint", "time.Duration":
		a := arg(0)
		if a.Sort == SReal {
			return Val{truncReal(a.T), intT}
		}
		return Val{a.T, intT}
	case "len":
		a := arg(0)
		switch {
		case a.Sort == SStr:
			return Val{App(SInt, "gs.len", a.T), intT}
		case x.u.sliceElem[a.Sort] != "":
			return Val{x.u.SliceLen(a.T), intT}
		case x.u.mapKV[a.Sort][0] != "":
			return Val{x.u.MapLen(a.T), intT}
		case a.Sort == SInt && a.Typ != nil:
			if _, ok := under(a.Typ).(*types.Map); ok {
				return Val{x.mapLenT(st, a), intT}
			}
		}
		if at, ok := under(a.Typ).(*types.Array); ok {
			return Val{IntLit(at.Len()), intT}
		}
		x.specErr(e, "len of sort %s", a.Sort)
		return Val{x.fresh("bad", SInt), intT}
	case "cap":
		a := arg(0)
		if _, isCh := under(a.Typ).(*types.Chan); isCh {
			return Val{x.uf("chancap", SInt, a.T), intT}
		}
		return Val{x.u.SliceCap(a.T), intT}
	case "min", "max":
		a, b := arg(0), arg(1)
		at, bt := coerce(a.T, b.T)
		op := "<="
		if name == "max" {
			op = ">="
		}
		return Val{Ite(Cmp(op, at, bt), at, bt), a.Typ}
	case "abs":
		a := arg(0)
		zero := IntLit(0)
		if a.Sort == SReal {
			zero = T{"0.0", SReal}
		}
		return Val{Ite(Cmp(">=", a.T, zero), a.T, App(a.Sort, "-", a.T)), a.Typ}
	case "ev":
		id := e.Args[0].(*ast.Ident)
		return x.ghostGet(st, "ev_"+id.Name)
	case "done":
		ctx := arg(0)
		return Val{x.ctxDone(st, ctx.T), boolT}
	case "doneAt":
		ctx := arg(0)
		return Val{x.uf("doneAt", SInt, ctx.T), intT}
	case "calls":
		k := "calls:" + x.srcOf(e.Args[0])
		if x.letWitness > 0 {
			// at a call site this counts calls made inside the callee: a witness
			if v, ok := x.witMemo[k]; ok {
				return v
			}
			v := Val{x.fresh("witness", SInt), intT}
			x.witMemo[k] = v
			return v
		}
		if v, ok := st.ghost[k]; ok {
			return v
		}
		if v, ok := x.entry.ghost[k]; ok {
			return v
		}
		return Val{IntLit(0), intT}
	case "result_of":
		ft := x.srcOf(e.Args[0])
		idx := 0
		if len(e.Args) > 1 {
			if bl, ok := e.Args[1].(*ast.BasicLit); ok {
				idx, _ = strconv.Atoi(bl.Value)
			}
		}
		k := fmt.Sprintf("res:%s:%d", ft, idx)
		if v, ok := st.ghost[k]; ok {
			return v
		}
		if v, ok := x.entry.ghost[k]; ok {
			return v
		}
		if x.letWitness > 0 {
			// at a call site the callee's internal call result is an (existential) witness
			if v, ok := x.witMemo[k]; ok {
				return v
			}
			var v Val
			if rt := x.calleeResultType(e.Args[0], idx, c); rt != nil {
				v = Val{x.fresh("witness", x.u.SortOf(rt)), rt}
			} else {
				v = Val{x.fresh("witness", x.witnessSort(c)), x.witnessTyp}
			}
			x.witMemo[k] = v
			return v
		}
		x.specErr(e, "no call of %s recorded on this path", ft)
		return Val{x.fresh("bad", SInt), nil}
	case "let_of":
		ft := x.srcOf(e.Args[0])
		k := fmt.Sprintf("let:%s:%s", ft, x.srcOf(e.Args[1]))
		if v, ok := st.ghost[k]; ok {
			return v
		}
		if v, ok := x.entry.ghost[k]; ok {
			return v
		}
		x.specErr(e, "no contract let %s recorded", k)
		return Val{x.fresh("bad", SInt), nil}
	case "pooltype":
		// pooltype(pool, T): every element of the sync.Pool has dynamic type T
		t := x.resolveType(e.Args[1], c.pkg)
		if t == nil {
			x.specErr(e, "cannot resolve type")
			return Val{True, boolT}
		}
		pv := arg(0)
		if pv.Sort != SInt {
			// a sync.Pool held by value: the pool is identified by its address, as at the Get/Put call sites
			if lv := x.specLV(st, e.Args[0], c); lv != nil {
				pv = Val{x.interiorAddr(st, lv, e), intT}
			}
		}
		return Val{Eq(x.uf("pooltype", SInt, pv.T), IntLit(int64(x.u.TypeID(t)))), boolT}
	case "dyntype":
		// dyntype(v): the dynamic type of interface value v (as an opaque number)
		return Val{IfaceTyp(arg(0).T), intT}
	case "elemtype":
		// elemtype(c): the dynamic type of the elements of container c (sync.Pool, sync.Map), see pooltype
		pv := arg(0)
		if pv.Sort != SInt {
			// a container held by value is identified by its address, as at the Get/Put call sites
			if lv := x.specLV(st, e.Args[0], c); lv != nil {
				pv = Val{x.interiorAddr(st, lv, e), intT}
			}
		}
		return Val{x.uf("pooltype", SInt, pv.T), intT}
	case "once":
		lv := x.specLV(st, e.Args[0], c)
		if lv == nil {
			return Val{True, boolT}
		}
		return x.readLV(st, lv)
	case "held":
		lv := x.specLV(st, e.Args[0], c)
		if lv == nil {
			return Val{True, boolT}
		}
		g := x.ghostGet(st, "lockHeld")
		return Val{Select(x.u.MapVal(g.T), x.interiorAddr(st, lv, e)), intT}
	case "has":
		m, k := arg(0), arg(1)
		if mt, ok := under(m.Typ).(*types.Map); ok {
			k = x.convert(st, k, mt.Key())
		}
		return Val{x.mapHas(st, m, k.T), boolT}
	case "isnil":
		a := arg(0)
		return Val{Eq(a.T, x.zero(a.Typ).T), boolT}
	case "typeis":
		a := arg(0)
		t := x.resolveType(e.Args[1], c.pkg)
		if t == nil {
			x.specErr(e, "cannot resolve type")
			return Val{True, boolT}
		}
		return Val{x.typeTest(a, t), boolT}
	case "fresh":
		a := arg(0)
		if c.old == nil {
			return Val{True, boolT}
		}
		return Val{And(Cmp(">", a.T, c.old.alloc), Cmp(">", x.proot(a.T), c.old.alloc)), boolT}
	case "arg":
		id := e.Args[0].(*ast.Ident)
		if v, ok := c.args[id.Name]; ok {
			return v
		}
		x.specErr(e, "no argument %s at this call site", id.Name)
		return Val{x.fresh("bad", SInt), nil}
	case "errors.Is":
		a, b := arg(0), arg(1)
		if a.Sort != SIface {
			a = x.convert(st, a, types.Universe.Lookup("error").Type())
		}
		if b.Sort != SIface {
			b = x.convert(st, b, types.Universe.Lookup("error").Type())
		}
		return Val{x.errIs(a.T, b.T), boolT}
	case "cause":
		a := arg(0)
		return Val{x.uf("errcause", SIface, a.T), a.Typ}
	case "apply":
		// apply(f, args...): the result of a pure function value
		f := arg(0)
		var as []T
		as = append(as, f.T)
		for i := 1; i < len(e.Args); i++ {
			as = append(as, arg(i).T)
		}
		var rt types.Type = intT
		srt := SInt
		if sig, ok := under(f.Typ).(*types.Signature); ok && sig.Results().Len() == 1 {
			rt = sig.Results().At(0).Type()
			srt = x.u.SortOf(rt)
		}
		return Val{x.uf(applyName(as, srt), srt, as...), rt}
	case "box":
		a := arg(0)
		return x.convert(st, a, types.NewInterfaceType(nil, nil))
	case "ref":
		a := arg(0)
		return Val{IfaceVal(a.T), intT}
	case "zero":
		t := x.resolveType(e.Args[0], c.pkg)
		return x.zero(t)
	}
	if sf, ok := x.eng.specFuncs[name]; ok && sf.sf.Body != nil {
		// macro: expanded in the current state
		names := map[string]Val{}
		for i, pn := range sf.sf.Params {
			if i >= len(e.Args) {
				break
			}
			a := arg(i)
			if sf.psorts[i] == SReal {
				a = Val{ToReal(a.T), realT}
			} else if sf.psorts[i] == SIface && a.Sort != SIface {
				a = x.convert(st, a, sf.ptypes[i])
			} else if a.Typ == nil || isUntypedConst(a.Typ) || isUntypedNil(a.Typ) {
				a = x.convert(st, a, sf.ptypes[i])
			} else {
				a.Typ = sf.ptypes[i]
			}
			names[pn] = a
		}
		c2 := &specCtx{names: names, old: c.old, pkg: sf.pkg, what: name}
		if sf.pkg == nil {
			c2.pkg = c.pkg
		}
		r := x.sp(st, sf.sf.Body, c2)
		if sf.rsort == SReal {
			r.T = ToReal(r.T)
		}
		r.Typ = sf.rtype
		return r
	}
	if sf, ok := x.eng.specFuncs[name]; ok {
		var as []T
		for i := range e.Args {
			a := arg(i)
			if i < len(sf.psorts) && sf.psorts[i] == SReal {
				a.T = ToReal(a.T)
			}
			if i < len(sf.ptypes) && sf.psorts[i] == SIface && a.Sort != SIface {
				a = x.convert(st, a, sf.ptypes[i])
			}
			as = append(as, a.T)
		}
		x.useSpecFunc(sf)
		if len(as) == 0 {
			return Val{T{sf.smtName, sf.rsort}, sf.rtype}
		}
		return Val{App(sf.rsort, sf.smtName, as...), sf.rtype}
	}
	if v, ok := x.spPureCall(st, e, c); ok {
		return v
	}
	x.specErr(e, "unknown spec function %s", name)
	return Val{x.fresh("bad", SInt), nil}
}

// spPureCall: a call of a Go function or method whose contract block is marked pure, used inside a contract.
func (x *Unit) spPureCall(st *State, e *ast.CallExpr, c *specCtx) (Val, bool) {
	var fn *types.Func
	var recv *Val
	switch f := e.Fun.(type) {
	case *ast.Ident:
		if c.pkg != nil {
			fn, _ = c.pkg.Scope().Lookup(f.Name).(*types.Func)
		}
	case *ast.SelectorExpr:
		if id, ok := f.X.(*ast.Ident); ok {
			if _, isName := c.names[id.Name]; !isName && x.lookupLocal(st, id.Name, c) == nil {
				if p := findImport(c.pkg, id.Name); p != nil {
					fn, _ = p.Scope().Lookup(f.Sel.Name).(*types.Func)
				}
			}
		}
		if fn == nil {
			v := x.sp(st, f.X, c)
			if v.Typ != nil {
				obj, _, _ := types.LookupFieldOrMethod(v.Typ, true, c.pkgOf(v.Typ), f.Sel.Name)
				if m, ok := obj.(*types.Func); ok {
					fn = m
					recv = &v
				}
			}
		}
	}
	if fn == nil {
		return Val{}, false
	}
	var b *Block
	if recv != nil && isIface(recv.Typ) {
		b = x.eng.ifaceBlock(recv.Typ, fn.Name())
	} else {
		key, pp := funcKey(fn)
		b = x.eng.blockFor(pp, key)
	}
	if b == nil || !b.Flags["pure"] {
		x.specErr(e, "function %s used in a contract has no pure contract block", fn.FullName())
		return Val{x.fresh("bad", SInt), nil}, true
	}
	sig := fn.Type().(*types.Signature)
	var as []T
	if recv != nil {
		as = append(as, recv.T)
	}
	for i, a := range e.Args {
		v := x.sp(st, a, c)
		if i < sig.Params().Len() {
			v = x.convert(st, v, sig.Params().At(i).Type())
		}
		as = append(as, v.T)
	}
	rt := sig.Results().At(0).Type()
	srt := x.u.SortOf(rt)
	name := fmt.Sprintf("pure_%s_%d", mangle(b.PkgPath+"."+b.Key), 0)
	if len(as) == 0 {
		x.u.DeclFun(name, "() "+string(srt))
		return Val{T{name, srt}, rt}, true
	}
	return Val{x.uf(name, srt, as...), rt}, true
}

func applyName(as []T, ret Sort) string {
	var ss []string
	for _, a := range as[1:] {
		ss = append(ss, sortIdent(a.Sort))
	}
	return "apply_" + strings.Join(ss, "_") + "_" + sortIdent(ret)
}

// resolveType resolves a type expression written in a contract.
func (x *Unit) resolveType(e ast.Expr, pkg *types.Package) types.Type {
	return resolveTypeIn(e, pkg)
}

func resolveTypeIn(e ast.Expr, pkg *types.Package) types.Type {
	switch e := e.(type) {
	case *ast.ParenExpr:
		return resolveTypeIn(e.X, pkg)
	case *ast.Ident:
		if e.Name == "real" {
			return realT
		}
		if pkg != nil {
			if o, ok := pkg.Scope().Lookup(e.Name).(*types.TypeName); ok {
				return o.Type()
			}
		}
		if o, ok := types.Universe.Lookup(e.Name).(*types.TypeName); ok {
			return o.Type()
		}
	case *ast.SelectorExpr:
		if id, ok := e.X.(*ast.Ident); ok {
			if p := findImport(pkg, id.Name); p != nil {
				if o, ok := p.Scope().Lookup(e.Sel.Name).(*types.TypeName); ok {
					return o.Type()
				}
			}
		}
	case *ast.StarExpr:
		if t := resolveTypeIn(e.X, pkg); t != nil {
			return types.NewPointer(t)
		}
	case *ast.ArrayType:
		if t := resolveTypeIn(e.Elt, pkg); t != nil {
			if e.Len == nil {
				return types.NewSlice(t)
			}
			if bl, ok := e.Len.(*ast.BasicLit); ok {
				n, _ := strconv.ParseInt(bl.Value, 0, 64)
				return types.NewArray(t, n)
			}
		}
	case *ast.MapType:
		k, v := resolveTypeIn(e.Key, pkg), resolveTypeIn(e.Value, pkg)
		if k != nil && v != nil {
			return types.NewMap(k, v)
		}
	case *ast.InterfaceType:
		return types.NewInterfaceType(nil, nil)
	case *ast.ChanType:
		if t := resolveTypeIn(e.Value, pkg); t != nil {
			return types.NewChan(types.SendRecv, t)
		}
	case *ast.FuncType:
		// func(T1, T2) (R1, R2): parameter and result types are resolved so that typeis can tell constructor shapes apart;
		// a part that does not resolve falls back to the shapeless signature (as before)
		tuple := func(fl *ast.FieldList) (*types.Tuple, bool) {
			if fl == nil {
				return nil, true
			}
			var vs []*types.Var
			for _, f := range fl.List {
				t := resolveTypeIn(f.Type, pkg)
				if t == nil {
					return nil, false
				}
				n := len(f.Names)
				if n == 0 {
					n = 1
				}
				for i := 0; i < n; i++ {
					vs = append(vs, types.NewVar(token.NoPos, nil, "", t))
				}
			}
			return types.NewTuple(vs...), true
		}
		ps, ok1 := tuple(e.Params)
		rs, ok2 := tuple(e.Results)
		if ok1 && ok2 {
			return types.NewSignatureType(nil, nil, nil, ps, rs, false)
		}
		return types.NewSignatureType(nil, nil, nil, nil, nil, false)
	}
	return nil
}

// specLV resolves a location named in a modifies clause.
func (x *Unit) specLV(st *State, e ast.Expr, c *specCtx) *LV {
	x.inSpec++
	defer func() { x.inSpec-- }()
	switch e := e.(type) {
	case *ast.ParenExpr:
		return x.specLV(st, e.X, c)
	case *ast.Ident:
		if _, ok := x.eng.ghostDecls[e.Name]; ok {
			return &LV{kind: lvGlobal, key: e.Name, typ: x.eng.ghostDecls[e.Name].typ, obj: nil}
		}
		if e.Name == "now" {
			return &LV{kind: lvGlobal, key: "now", typ: intT}
		}
		if o := x.lookupLocal(st, e.Name, c); o != nil {
			return &LV{kind: lvVar, obj: o, typ: o.Type()}
		}
		if c.pkg != nil {
			if o, ok := c.pkg.Scope().Lookup(e.Name).(*types.Var); ok {
				return &LV{kind: lvGlobal, obj: o, typ: o.Type()}
			}
		}
	case *ast.CallExpr:
		if id, ok := e.Fun.(*ast.Ident); ok && id.Name == "ev" {
			n := e.Args[0].(*ast.Ident).Name
			return &LV{kind: lvGlobal, key: "ev_" + n, typ: intT}
		}
		if id, ok := e.Fun.(*ast.Ident); ok && id.Name == "elems" {
			// elems(m): the whole contents of map m
			m := x.sp(st, e.Args[0], c)
			if _, isMap := under(m.Typ).(*types.Map); isMap && !x.isGhostMap(m) {
				return x.mapLV(m)
			}
		}
	case *ast.SelectorExpr:
		base := x.sp(st, e.X, c)
		if base.Typ == nil {
			break
		}
		obj, path, _ := types.LookupFieldOrMethod(base.Typ, true, c.pkgOf(base.Typ), e.Sel.Name)
		if _, ok := obj.(*types.Var); !ok {
			break
		}
		var cur *LV
		if _, ok := under(base.Typ).(*types.Pointer); ok {
			cur = &LV{kind: lvBlank, ref: base.T, typ: base.Typ}
		} else {
			cur = x.specLV(st, e.X, c)
			if cur == nil {
				return nil
			}
		}
		lv := x.walkFields(st, cur, base.Typ, path)
		if av, ok := x.atomicView(st, lv); ok {
			return av
		}
		return lv
	case *ast.IndexExpr:
		p := x.specLV(st, e.X, c)
		if p == nil {
			return nil
		}
		i := x.sp(st, e.Index, c)
		switch tt := under(p.typ).(type) {
		case *types.Map:
			k := x.convert(st, i, tt.Key())
			if pv := x.readLV(st, p); !x.isGhostMap(pv) {
				return &LV{kind: lvMap, parent: x.mapLV(pv), idx: k.T, typ: tt.Elem()}
			}
			return &LV{kind: lvMap, parent: p, idx: k.T, typ: tt.Elem()}
		case *types.Slice:
			return &LV{kind: lvIndex, parent: p, idx: i.T, typ: tt.Elem()}
		case *types.Array:
			return &LV{kind: lvIndex, parent: p, idx: i.T, typ: tt.Elem()}
		}
	case *ast.StarExpr:
		p := x.sp(st, e.X, c)
		if pt, ok := under(p.Typ).(*types.Pointer); ok {
			if av, ok := x.atomicView(st, &LV{kind: lvHeap, key: structKey(pt.Elem()), ref: p.T, typ: pt.Elem()}); ok {
				return av
			}
			return x.derefLV(p, pt.Elem())
		}
	}
	x.specErr(e, "cannot resolve location")
	return nil
}

// witnessSort: result_of witnesses take the sort expected by the surrounding comparison when known (default Int).
func (x *Unit) witnessSort(c *specCtx) Sort {
	x.witnessTyp = intT
	if x.witnessHint != nil {
		x.witnessTyp = x.witnessHint
		return x.u.SortOf(x.witnessHint)
	}
	return SInt
}

func isResultOf(e ast.Expr) bool {
	c, ok := ast.Unparen(e).(*ast.CallExpr)
	if !ok {
		return false
	}
	id, ok := c.Fun.(*ast.Ident)
	return ok && id.Name == "result_of"
}

// calleeResultType resolves the type of result idx of a callee named by text (package-level or qualified functions).
// specStaticType is the static type of a name or a chain of field selections in a contract expression (nil if unknown).
func (x *Unit) specStaticType(e ast.Expr, c *specCtx) types.Type {
	switch f := ast.Unparen(e).(type) {
	case *ast.Ident:
		if v, ok := c.names[f.Name]; ok && v.Typ != nil {
			return v.Typ
		}
		if c.pkg != nil {
			if o, ok := c.pkg.Scope().Lookup(f.Name).(*types.Var); ok {
				return o.Type()
			}
		}
	case *ast.SelectorExpr:
		xt := x.specStaticType(f.X, c)
		if xt == nil {
			return nil
		}
		obj, _, _ := types.LookupFieldOrMethod(xt, true, c.pkgOf(xt), f.Sel.Name)
		if o, ok := obj.(*types.Var); ok {
			return o.Type()
		}
	}
	return nil
}

func (x *Unit) calleeResultType(e ast.Expr, idx int, c *specCtx) types.Type {
	var fn *types.Func
	switch f := e.(type) {
	case *ast.UnaryExpr:
		if f.Op == token.ARROW && idx == 1 {
			return boolT // v, ok := <-ch
		}
		return nil
	case *ast.Ident:
		if c.pkg != nil {
			fn, _ = c.pkg.Scope().Lookup(f.Name).(*types.Func)
		}
	case *ast.SelectorExpr:
		if _, plain := f.X.(*ast.Ident); !plain {
			// a method of a field of a named value: recv.f.M
			if xt := x.specStaticType(f.X, c); xt != nil {
				obj, _, _ := types.LookupFieldOrMethod(xt, true, c.pkgOf(xt), f.Sel.Name)
				switch o := obj.(type) {
				case *types.Func:
					fn = o
				case *types.Var:
					if sig, ok := under(o.Type()).(*types.Signature); ok && idx < sig.Results().Len() {
						return sig.Results().At(idx).Type()
					}
				}
			}
		}
		if id, ok := f.X.(*ast.Ident); ok {
			if v, isName := c.names[id.Name]; isName && v.Typ != nil {
				// a method (or func-typed field) of a named value of the contract: recv.M
				obj, _, _ := types.LookupFieldOrMethod(v.Typ, true, c.pkgOf(v.Typ), f.Sel.Name)
				switch o := obj.(type) {
				case *types.Func:
					fn = o
				case *types.Var:
					if sig, ok := under(o.Type()).(*types.Signature); ok && idx < sig.Results().Len() {
						return sig.Results().At(idx).Type()
					}
				}
			} else if p := findImport(c.pkg, id.Name); p != nil {
				fn, _ = p.Scope().Lookup(f.Sel.Name).(*types.Func)
			}
		}
	}
	if fn == nil {
		return nil
	}
	sig := fn.Type().(*types.Signature)
	if idx < sig.Results().Len() {
		return sig.Results().At(idx).Type()
	}
	return nil
}

// ctxType is context.Context (for values produced by the cancels builtin).
func (x *Unit) ctxType() types.Type {
	for _, p := range x.eng.allTypes {
		if p.Path() == "context" {
			if o := p.Scope().Lookup("Context"); o != nil {
				return o.Type()
			}
		}
	}
	return nil
}
