package main

import (
	"bytes"
	"context"
	"fmt"
	"os"
	"os/exec"
	"path/filepath"
	"strings"
	"sync"
	"time"
)

type SolveResult struct {
	Status       string // unsat sat unknown timeout error
	Solver       string
	Seconds      float64
	Model        string
	Raw          string
	Second       string // confirming solver (thorough tier)
	Candidate    bool   // model obtained without the quantified axioms
	SomeTimedOut bool   // no answer, and at least one solver ran out of time or failed
}

type solverSpec struct {
	name string
	argv func(file string, timeoutMs int) []string
}

var solvers = []solverSpec{
	{"z3-new", func(f string, t int) []string { return []string{"z3-new", fmt.Sprintf("-t:%d", t), "-smt2", f} }},
	{"z3", func(f string, t int) []string { return []string{"/usr/bin/z3", fmt.Sprintf("-t:%d", t), "-smt2", f} }},
	{"cvc5", func(f string, t int) []string {
		return []string{"cvc5", "--lang", "smt2", "-q", fmt.Sprintf("--tlimit=%d", t), f}
	}},
}

// Script renders the obligation as a standalone SMT-LIB2 script.
func (o *Obligation) Script(noQuant bool) string {
	x := o.Unit
	var b strings.Builder
	b.WriteString("; obligation " + o.Name + "\n")
	if o.Pos.IsValid() {
		b.WriteString("; at " + o.Pos.String() + "\n")
	}
	b.WriteString("(set-option :produce-models true)\n(set-logic ALL)\n")
	b.WriteString(x.u.Preamble())
	for _, s := range x.u.strOrder {
		b.WriteString(fmt.Sprintf("; string literal %s = %q\n", x.u.strLits[s], s))
	}
	for i, a := range x.u.axioms {
		if (o.WantSat || noQuant) && strings.Contains(a, "(forall ") {
			continue // reachability canaries are decided without the quantified background axioms
		}
		b.WriteString(fmt.Sprintf("(assert (! %s :named ax_%d))\n", a, i))
	}
	for _, a := range x.u.StrAxioms() {
		b.WriteString("(assert " + a + ")\n")
	}
	for _, c := range x.consts[:o.NConsts] {
		b.WriteString(c)
		b.WriteByte('\n')
	}
	for _, f := range x.facts[:o.NFacts] {
		if (o.WantSat || noQuant) && strings.Contains(f, "(forall ") {
			continue
		}
		b.WriteString("(assert " + f + ")\n")
	}
	b.WriteString("(assert " + o.PC.S + ")\n")
	if !o.WantSat {
		b.WriteString("(assert (not " + o.Goal.S + "))\n")
	}
	b.WriteString("(check-sat)\n")
	if !o.WantSat {
		var ins []string
		declared := map[string]bool{}
		for _, c := range x.consts[:o.NConsts] {
			f := strings.Fields(c)
			declared[f[1]] = true
		}
		for _, in := range x.inputs {
			if declared[in] {
				ins = append(ins, in)
			}
		}
		for _, in := range x.selectChoices {
			if declared[in] {
				ins = append(ins, in)
			}
		}
		if len(ins) > 0 {
			b.WriteString("(get-value (" + strings.Join(ins, " ") + "))\n")
		}
	}
	return b.String()
}

func runSolver(ctx context.Context, s solverSpec, file string, timeout time.Duration) SolveResult {
	t0 := time.Now()
	cctx, cancel := context.WithTimeout(ctx, timeout+2*time.Second)
	defer cancel()
	argv := s.argv(file, int(timeout/time.Millisecond))
	cmd := exec.CommandContext(cctx, argv[0], argv[1:]...)
	var out bytes.Buffer
	cmd.Stdout = &out
	cmd.Stderr = &out
	_ = cmd.Run()
	res := SolveResult{Solver: s.name, Seconds: time.Since(t0).Seconds(), Raw: out.String()}
	first := strings.TrimSpace(strings.SplitN(out.String(), "\n", 2)[0])
	switch first {
	case "unsat", "sat", "unknown":
		res.Status = first
		if first == "sat" {
			if i := strings.Index(out.String(), "\n"); i >= 0 {
				res.Model = strings.TrimSpace(out.String()[i+1:])
			}
		}
	default:
		if cctx.Err() != nil || strings.Contains(first, "timeout") || first == "" {
			res.Status = "timeout"
		} else {
			res.Status = "error"
		}
	}
	return res
}

// solve races the solvers on one obligation. The first definite answer wins.
func solveObligation(o *Obligation, dir string, timeout time.Duration, confirm bool, order []int) {
	script := o.Script(false)
	if len(script) > 4<<20 {
		o.Result = &SolveResult{Status: "error", Raw: "script larger than 4 MB: generator bug"}
		return
	}
	file := filepath.Join(dir, sanitizeFile(o.Name)+".smt2")
	if err := os.WriteFile(file, []byte(script), 0o644); err != nil {
		o.Result = &SolveResult{Status: "error", Raw: err.Error()}
		return
	}
	ctx, cancel := context.WithCancel(context.Background())
	defer cancel()
	results := make(chan SolveResult, len(solvers))
	for _, i := range order {
		s := solvers[i]
		go func() { results <- runSolver(ctx, s, file, timeout) }()
	}
	var all []SolveResult
	var winner *SolveResult
	for range order {
		r := <-results
		all = append(all, r)
		if r.Status == "sat" || r.Status == "unsat" {
			if winner == nil {
				rr := r
				winner = &rr
				if !confirm {
					break
				}
			} else if r.Status == winner.Status && winner.Second == "" {
				winner.Second = r.Solver
				break
			} else if r.Status != winner.Status {
				winner = &SolveResult{Status: "error", Raw: fmt.Sprintf("solvers disagree: %s=%s %s=%s", winner.Solver, winner.Status, r.Solver, r.Status)}
				break
			}
		}
	}
	cancel()
	if winner == nil {
		// report the most informative non-answer
		best := all[0]
		for _, r := range all {
			if r.Status == "unknown" {
				best = r
			}
		}
		var raws []string
		for _, r := range all {
			raws = append(raws, fmt.Sprintf("[%s %s %.1fs] %s", r.Solver, r.Status, r.Seconds, firstLines(r.Raw, 3)))
		}
		best.Raw = strings.Join(raws, "\n")
		for _, r := range all {
			if r.Status == "timeout" || r.Status == "error" {
				best.SomeTimedOut = true // another solver might have decided it with more time
			}
		}
		winner = &best
	}
	o.Result = winner
	if (winner.Status == "unsat" && !o.WantSat || winner.Status == "sat" && o.WantSat) && os.Getenv("GOVC_KEEP") == "" {
		os.Remove(file)
	}
	if !o.WantSat && (winner.Status == "unknown" || winner.Status == "timeout") {
		// look for a candidate counterexample with the quantified background dropped
		f2 := filepath.Join(dir, sanitizeFile(o.Name)+".noquant.smt2")
		if os.WriteFile(f2, []byte(o.Script(true)), 0o644) == nil {
			r := runSolver(context.Background(), solvers[0], f2, 5*time.Second)
			if r.Status == "sat" {
				winner.Model = r.Model
				winner.Raw += "\n[candidate counterexample found with quantified axioms dropped; it may violate them]"
				winner.Candidate = true
			}
			os.Remove(f2)
		}
	}
}

func firstLines(s string, n int) string {
	ls := strings.Split(strings.TrimSpace(s), "\n")
	if len(ls) > n {
		ls = ls[:n]
	}
	return strings.Join(ls, " | ")
}

func sanitizeFile(s string) string {
	var b strings.Builder
	for _, c := range s {
		if c >= 'a' && c <= 'z' || c >= 'A' && c <= 'Z' || c >= '0' && c <= '9' || c == '.' || c == '-' || c == '_' {
			b.WriteRune(c)
		} else {
			b.WriteByte('_')
		}
	}
	out := b.String()
	if len(out) > 180 {
		out = out[:180]
	}
	return out
}

// solveAll discharges obligations on a worker pool.
func solveAll(obls []*Obligation, dir string, timeout time.Duration, confirm bool, workers int, seed int64) {
	os.MkdirAll(dir, 0o755)
	order := []int{0, 1, 2}
	if seed%2 == 1 {
		order = []int{0, 2, 1}
	}
	var wg sync.WaitGroup
	ch := make(chan *Obligation)
	for i := 0; i < workers; i++ {
		wg.Add(1)
		go func() {
			defer wg.Done()
			for o := range ch {
				// syntactically trivial goals need no solver
				if !o.WantSat && o.Goal.IsTrue() {
					o.Result = &SolveResult{Status: "unsat", Solver: "syntactic"}
					continue
				}
				if o.Kind == "tag" && !o.WantSat {
					// struct-tag obligations are decided by looking at the tag: the goal is the literal false here
					o.Result = &SolveResult{Status: "sat", Solver: "syntactic", Raw: "the struct tag in the source does not list the item"}
					continue
				}
				if o.WantSat {
					solveObligation(o, dir, 3*time.Second, false, order)
					continue
				}
				solveObligation(o, dir, timeout, confirm, order)
			}
		}()
	}
	for _, o := range obls {
		ch <- o
	}
	close(ch)
	wg.Wait()
	// Under load a solver may be killed or time out on an easy goal: retry the undecided ones one at a time, with more time.
	slowRetries := 0
	for _, o := range obls {
		again := o.Result == nil || o.Result.Status == "error" || o.Result.Status == "timeout" || (o.WantSat && o.Result.Status != "sat" && o.Result.Status != "unsat")
		if o.Result != nil && (strings.Contains(o.Result.Raw, "unknown constant") || strings.Contains(o.Result.Raw, "Parse Error")) {
			again = false // the script does not parse: a defect of the generator or of a contract expression, not of the load
		}
		if !again && !o.WantSat && o.Result.Status == "unknown" && o.Result.SomeTimedOut && slowRetries < 12 {
			// one solver gave up at once, the others ran out of time: under load that is not a verdict
			again = true
			slowRetries++
		}
		if again {
			first := o.Result
			t := 3 * timeout
			if o.WantSat {
				t = 10 * time.Second
			}
			solveObligation(o, dir, t, false, order)
			if o.Result != nil && first != nil {
				o.Result.Seconds += first.Seconds
				o.Result.Raw += "\n[retried after " + first.Status + "]"
			}
		}
	}
}

func (o *Obligation) Discharged() bool {
	if o.Result == nil {
		return false
	}
	if o.WantSat {
		return o.Result.Status == "sat"
	}
	return o.Result.Status == "unsat"
}
