package main

import (
	"fmt"
	"go/types"
	"strings"
)

// runLemma turns a lemma block into obligations: declared variables are universally quantified,
// requires/import clauses are hypotheses, ensures clauses are conclusions.
func (e *Engine) runLemma(b *Block) *Unit {
	x := &Unit{
		eng: e, u: e.u, block: b, name: "lemma:" + b.Key,
		boxed: map[types.Object]T{}, assumptions: map[string]bool{}, libUsed: map[string]bool{},
		calleesUsed: map[string]bool{}, oblNames: map[string]int{}, atSeen: map[int]int{}, callOrd: map[string]int{},
		unitNames: map[string]Val{}, closureBlocks: map[string]*Block{},
	}
	// any loaded package gives positions/fileset; lemmas have no program text
	for _, pi := range e.pkgs {
		if pi.pkg.PkgPath == b.PkgPath {
			x.pkg = pi.pkg
			x.info = pi.pkg.TypesInfo
		}
	}
	if x.pkg == nil {
		for _, pi := range e.pkgs {
			x.pkg = pi.pkg
			x.info = pi.pkg.TypesInfo
			break
		}
	}
	st := &State{pc: True, env: map[types.Object]Val{}, heap: map[string]T{}, ghost: map[string]Val{}, spec: map[string]Val{}, panicking: False}
	st.epoch = x.newEpoch()
	st.alloc = IntLit(0)
	x.entry = st.clone()
	x.fr = &frame{loopBase: b.Key, loopN: new(int)}
	pkg := e.typesPkg(b.PkgPath)
	names := map[string]Val{}
	c := &specCtx{names: names, old: x.entry, pkg: pkg, what: b.Key}
	for _, cl := range b.Clauses {
		switch cl.Kind {
		case "var":
			te, err := parseTypeExpr(cl.AtName)
			var t types.Type
			if err == nil {
				t = resolveTypeIn(te, pkg)
			}
			if t == nil {
				x.specErrors = append(x.specErrors, fmt.Sprintf("lemma %s: cannot resolve type %s", b.Key, cl.AtName))
				continue
			}
			for _, n := range strings.Fields(cl.GhostName) {
				v := Val{x.fresh(n, e.u.SortOf(t)), t}
				x.inputs = append(x.inputs, v.S)
				x.assume(st, x.typeInv(st, v, 0))
				names[n] = v
			}
		case "ghost":
			names[cl.GhostName] = x.specEval(st, cl.Expr, c)
		case "requires":
			x.assume(st, x.specEval(st, cl.Expr, c).T)
		case "import":
			ib := e.blockFor(b.PkgPath, cl.AtName)
			if ib == nil {
				x.specErrors = append(x.specErrors, fmt.Sprintf("lemma %s: import of unknown block %s", b.Key, cl.AtName))
				continue
			}
			x.calleesUsed["imported "+cl.AtKind+" of "+ib.Key] = true
			for _, icl := range ib.Clauses {
				if icl.Kind == "ghost" || icl.Kind == "let" {
					if _, have := names[icl.GhostName]; !have {
						names[icl.GhostName] = x.specEval(st, icl.Expr, c)
					}
				}
			}
			n := 0
			for _, icl := range ib.Clauses {
				if icl.Kind == cl.AtKind {
					x.assume(st, x.specEval(st, icl.Expr, c).T)
					n++
				}
			}
			if n == 0 {
				x.specErrors = append(x.specErrors, fmt.Sprintf("lemma %s: block %s has no %s clauses to import", b.Key, ib.Key, cl.AtKind))
			}
		}
	}
	vac := x.oblige(st, "vacuity", "hypotheses-satisfiable", False, nil)
	vac.WantSat = true
	vac.Kind = "canary"
	for i, cl := range b.ClausesOf("ensures") {
		g := x.specEval(st, cl.Expr, c)
		x.oblige(st, "lemma", clauseLabel(cl, i), g.T, nil)
	}
	return x
}
