#!/bin/bash
# seedrun_scratch.sh [seed-dir-names...]: like seedrun.sh, but every seed is applied to its own scratch copy of /repo's
# working tree (under /tmp, removed afterwards), so /repo stays untouched and several seeds run at once (PAR, default 3).
# Counterexample replay is off here (it runs `go test` in the tree under check): use seedrun.sh for that.
cd /verif
SD=${SEED_DIR:-/verif/seeded}
seeds=${@:-$(ls $SD)}
one() {
  s=$1; SD=$2
  d=$SD/$s
  prop=$(python3 -c "import json;print(json.load(open('$d/meta.json'))['property'])")
  cp=$(mktemp -d /tmp/seedscratch.XXXXXX)
  rsync -a --exclude .git /repo/ $cp/
  if ! (cd $cp && patch -p1 -s --no-backup-if-mismatch < $d/patch.diff >/dev/null 2>&1); then echo "$s: PATCH-DOES-NOT-APPLY"; rm -rf $cp; return; fi
  out=$(bin/govc check --property $prop --repo $cp --no-evidence --no-replay --out $cp/.govc-out 2>&1)
  rc=$?
  rm -rf $cp
  fails=$(echo "$out" | grep -E "failed obligation|UNSUPPORTED|CHECK-ERROR" | head -2 | sed 's/^ *//; s/failed obligation: //' | sed -E 's/ \((unknown|sat|error|timeout),.*//' | cut -c1-200 | paste -sd';' -)
  if [ $rc -ne 0 ]; then echo "$s: DETECTED by $prop | $fails"; else echo "$s: MISSED by $prop"; fi
}
export -f one
echo $seeds | tr ' ' '\n' | xargs -P ${PAR:-3} -I{} bash -c "one {} $SD" | sort
