#!/bin/bash
# okconfirm.sh <pair> <n>: take behaviour-preserving edit /tmp/wt/<pair>ok/_ok/k<n>.* , check that it applies to /repo HEAD, builds, and that
# the touched packages' tests pass; store it as /verif/harmless/<prop>-k<pair><n>/ (patch.diff, meta.json).
export GOFLAGS=-mod=mod GOPROXY=off GOSUMDB=off GOTOOLCHAIN=local
pair=$1; n=$2; src=/tmp/wt/${pair}ok/_ok
[ -f $src/k$n.diff ] || { echo "no k$n.diff"; exit 2; }
wt=/tmp/wt/okc-$pair-$n
git -C /repo worktree remove --force $wt >/dev/null 2>&1
git -C /repo worktree add --detach -f $wt HEAD >/dev/null 2>&1 || { echo "worktree failed"; exit 2; }
cd $wt
git apply $src/k$n.diff || { echo "PATCH DOES NOT APPLY"; cd /; git -C /repo worktree remove --force $wt; exit 3; }
pk=$(git diff --name-only | xargs -n1 dirname | sort -u | sed 's|^|./|;s|$|/|' | tr '\n' ' ')
go build ./... && go vet -tags verif $pk >/dev/null 2>&1; go build ./... && go test -vet=off -count=1 -timeout 15m $pk > /tmp/wt/okc-$pair-$n.log 2>&1; rc=$?
tail -3 /tmp/wt/okc-$pair-$n.log
cd /; git -C /repo worktree remove --force $wt
if [ $rc -eq 0 ]; then
  prop=$(python3 -c "import json;print(json.load(open('$src/k$n.json'))['property'])")
  d=/verif/harmless/$prop-k$n-$pair; mkdir -p $d
  cp $src/k$n.diff $d/patch.diff; cp $src/k$n.json $d/meta.json
  echo "kept $d"
else echo "REJECTED rc=$rc"; fi
