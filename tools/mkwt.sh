#!/bin/bash
# mkwt.sh <name>: scratch worktree of /repo HEAD under /tmp/wt/<name> without the contract files (committed on a detached HEAD there)
set -e
d=/tmp/wt/$1
mkdir -p /tmp/wt
git -C /repo worktree add --detach -f $d HEAD >/dev/null 2>&1
cd $d
find . -name verif_contracts.go -delete
git -c user.name=scratch -c user.email=s@x commit -qam "scratch base (no contract files)"
echo $d
