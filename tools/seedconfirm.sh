#!/bin/bash
# seedconfirm.sh <prop> <n>: confirm seeded change /tmp/wt/<prop>/_seed/m<n>.* in a fresh scratch worktree of /repo HEAD:
#  demo fails with the change, passes without; affected package tests pass with the change. On success stores it in /verif/seeded/<prop>-m<n>/.
export GOFLAGS=-mod=mod GOPROXY=off GOSUMDB=off GOTOOLCHAIN=local
prop=$1; n=$2; round=$3; src=/tmp/wt/$prop$round/_seed
wt=/tmp/wt/confirm-$prop$round-$n
git -C /repo worktree remove --force $wt >/dev/null 2>&1
git -C /repo worktree add --detach -f $wt HEAD >/dev/null 2>&1 || { echo "worktree failed"; exit 2; }
cd $wt
pkgdir=$(python3 - <<PY
import json,re
d=json.load(open("$src/m$n.json"))
s=d["demo_pkg_dir"]
m=re.search(r'([A-Za-z0-9_./-]+/[A-Za-z0-9_./-]+|core|cli|lib/[a-z0-9]+)',s)
print(m.group(1).rstrip('/'))
PY
)
demo=$src/m${n}_demo_test.go
[ -f "$demo" ] || demo=$(ls $src/m${n}_demo* | head -1)
pkgname=$(grep -m1 '^package ' $demo | awk '{print $2}')
echo "pkgdir=$pkgdir demo=$demo package=$pkgname"
cp $demo $pkgdir/zz_seed_${n}_test.go
echo "--- without change"
go test -vet=off -count=1 -timeout 5m -run 'Seed' ./$pkgdir/ > /tmp/wt/confirm-$prop$round-$n.without.log 2>&1; rc0=$?
tail -3 /tmp/wt/confirm-$prop$round-$n.without.log
git apply $src/m$n.diff || { echo "PATCH DOES NOT APPLY"; cd /; git -C /repo worktree remove --force $wt; exit 3; }
echo "--- with change"
go test -vet=off -count=1 -timeout 5m -run 'Seed' ./$pkgdir/ > /tmp/wt/confirm-$prop$round-$n.with.log 2>&1; rc1=$?
tail -5 /tmp/wt/confirm-$prop$round-$n.with.log
rm $pkgdir/zz_seed_${n}_test.go
echo "--- existing tests of changed packages with change"
pk=$(git diff --name-only | xargs -n1 dirname | sort -u | sed 's|^|./|;s|$|/|' | tr '\n' ' ')
go build ./... && go test -vet=off -count=1 -timeout 15m $pk > /tmp/wt/confirm-$prop$round-$n.suite.log 2>&1; rc2=$?
tail -4 /tmp/wt/confirm-$prop$round-$n.suite.log
cd /; git -C /repo worktree remove --force $wt
echo "rc without=$rc0 with=$rc1 suite=$rc2"
if [ $rc0 -eq 0 ] && [ $rc1 -ne 0 ] && [ $rc2 -eq 0 ]; then
  d=/verif/seeded/$prop-${round}m$n; mkdir -p $d
  cp $src/m$n.diff $d/patch.diff; cp $demo $d/demo_test.go.txt
  python3 - <<PY
import json
d=json.load(open("$src/m$n.json"))
meta={"property":"$prop","summary":d.get("summary"),"needs_to_manifest":d.get("needs_to_manifest"),"files_changed":d.get("files_changed"),
 "demo":{"file":"demo_test.go.txt","place_in":"$pkgdir","as":"zz_seed_${n}_test.go","run":"go test -vet=off -count=1 -run Seed ./$pkgdir/"},
 "confirmed":{"how":"tools/seedconfirm.sh $prop $n $round in a scratch worktree of /repo HEAD","demo_without_change":"PASS","demo_with_change":"FAIL","package_tests_with_change":"PASS ($pk)"}}
json.dump(meta,open("$d/meta.json","w"),indent=1)
PY
  echo "CONFIRMED -> $d"
else
  echo "NOT CONFIRMED"
fi
