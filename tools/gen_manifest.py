#!/usr/bin/env python3
"""Regenerates /verif/MANIFEST.json from the table below (the single place where claims are listed)."""
import json, subprocess
props=[json.loads(l) for l in open('/verif/properties.jsonl')]
TECH="contract-based deductive verification: //@ contracts on the real Go functions, VCs by symbolic execution of the typed AST (govc), discharged by z3/z3-new/cvc5"
NOTE_COMMON=("trusted: SMT solvers (z3 4.8.12, z3-new 5.1.0, cvc5 1.0.3), the govc VC generator, go/types; library and interface contracts listed per run in the evidence file "
             "(trusted_base); integers mathematical, float64 as exact reals; goroutine interleavings not modelled (go statements are ghost events, select is a nondeterministic choice among enabled cases)")
claims={
 "C01":("Per-function proof for all (from,to,ops,n,duration): token count and token-time function of const/line/once profiles equal the rate integral (exact reals, 1 ns truncation), doAt schedule hands out start+f(i) and start+duration when exhausted.","DESIGN.md §5 C01"),
 "C02":("Per-function proof, every path, all trees of parts: the composite's leftAfter table is exact where non-negative (built by NewComposite, kept by startNext), Left() returns the exact total when all remaining parts are known and -1 otherwise, every nested part is started exactly at the finish time returned by the exhausted part before it and exactly once, a finished composite stays finished; doAt/unlimited/once/finish-callback schedules hand out one index per call. Callers' interference is modelled at the write lock (protected fields havocked, only the data-structure invariant assumed); exactly-once across callers rests on the assumed linearizability of the atomic counter; full linearizability of the composite is not claimed.","DESIGN.md §5 C02"),
 "C03":("Per-instance accounting proved for every path and any number of iterations of instance.Run: one release per acquired ammo, a token is drawn only while ammo is held, at most one shot or discard per token, request/response counters equal shots; the global min(tokens, ammo) law over interleavings of instances is out of reach (stated).","DESIGN.md §5 C03"),
 "C04":("Waiter proved on a ghost clock for all token times and clock histories: no return before the token time, lateness measured with a clock sample taken in the call, 2 s window exact; the instance iteration discards only when enabled and late, shoots only when not late.","DESIGN.md §5 C04"),
 "C05":("Every exit path of the pool orchestration functions (all select orders as nondeterministic choice): wait group released exactly once, a nil result only after a clean await, every awaited result examined and every real failure handed on with its cause, delivered unless the pool context is done; liveness/promptness out of reach (stated).","DESIGN.md §5 C05"),
 "C06":("Per-function proof for all timestamps at least 1 s after the epoch, all field values and every exit path: the phout timestamp is the decimal text of the millisecond time with the dot before its last three digits (quantified array contract, shift loop by invariant); a line is timestamp, tab, tag (#id), then the ten fields in index order each after a tab, written once per handled sample with a newline; the phout run flushes and closes on every exit and drains the queue after the context is done; Reporter.Report queues or counts a drop, never both or neither, and DroppedErr carries exactly the count; the encoder aggregator encodes every received sample, finishes the encoder and closes the sink on every exit and fails on drops; provider and aggregator run under the run context; the process exits only after waiting for the engine's tasks. Concurrent Report racing the final drain and jsoniter's output are out of reach (stated).","DESIGN.md §5 C06"),
 "C07":("Per-function proof for all line contents, header sets and passes (string operations through assumed contracts of strings/strconv/bufio): each decoder hands Setup exactly the parsed method, URL, body of the announced size, tag and header set; in-file header lines update the common header and yield no entry; blank lines yield nothing; an unterminated last line is decoded; a pass ends only at end of file and forgets in-file headers; JSON array entries are delivered in file order wrapping around, each with its own header copy; BuildRequest builds the request from exactly the stored fields; Acquire hands out the built request with the entry's tag and a new id.","DESIGN.md §5 C07"),
 "C09":("Per-function proof for all header sets, ssl on/off, every path of BaseGun.Shoot and ScenarioGun.prepareRequest: scheme follows the ssl option, URL host is the resolved target, the ammo's Host wins and defaults to the target's host, method/path/query/headers/body are not assigned; configured headers are added only where the entry does not define the header (uri, uripost, raw, json alike; Host only when the request has none); the transport is configured exactly as the options say and each gun owns one client built from its own configuration. Bytes on the wire and connection reuse are net/http behaviour: not reachable (stated).","DESIGN.md §5 C09"),
 "C08":("Counter contracts of the decoders/providers proved for all (limit, passes, n): pass counter equals delivered div n, pass limit reached exactly after passes*n entries.","DESIGN.md §5 C08"),
 "C10":("gRPC status table proved equal to the documented table for every status code.","DESIGN.md §5 C10"),
 "C14":("Two functions against one specification: streaming (runFullScan) delivers every scanned entry whose tag is chosen, in scan order, and nothing else; preload (LoadAmmo, loadAmmo, runPreloaded) reads exactly one full pass, keeps exactly the chosen entries in order and sends entry j as ammos[j mod n] until exactly passes complete passes or limit entries; both modes end without error at the bounds and close the sink on every exit; IsChosenCase is membership in the configured list. One recorded finding (F12): when streaming, the limit counts scanned rather than delivered entries.","DESIGN.md §5 C14"),
 "C12":("Start-up loop proved for all start-up schedules (as token sources) and cancel points: never more instances than tokens released, ids 0,1,2.. in spawn order, one goroutine per instance, all tokens become instances unless cut short by cancellation or a creation error.","DESIGN.md §5 C12"),
}
na_reason={
 "C16":"no contract within reach can express it: the property relates two front-ends whose substance is three third-party libraries (gohcl, yaml, mapstructure); pandora's own code on that path is struct declarations and a five-line conversion (DESIGN.md §5 C16)",
}
default_na="contracts for this property are not built yet (work in progress, see DESIGN.md §5); nothing is claimed"
m={"version":1,
 "setup_cmd":"cd /verif/govc && GOFLAGS=-mod=vendor GOPROXY=off GOSUMDB=off GOTOOLCHAIN=local go build -o ../bin/govc .",
 "hooks":{"guard":"verif","enable":"govc loads /repo's working tree with go/packages and -tags=verif; the only hooks are comment-only contract files <pkg>/verif_contracts.go carrying //go:build verif (no executable code)",
   "baseline_off_cmd":"cd /repo && go test -mod=mod -vet=off -count=1 -timeout 25m ./...","source_commits":[],"add_only":True},
 "engines":[{"name":"govc","path":"/verif/govc","serves_properties":sorted(claims),"kind_free_text":"contract-based deductive verifier for Go written for this task (no Go verifier is installed): symbolic execution with state merging over go/ast+go/types of the real functions in /repo against //@ contracts, loops cut by invariants, obligations discharged by z3/z3-new/cvc5 raced per obligation"}],
 "checks":[],"not_applicable":[],
 "notes":"All checks: bin/govc check --property <id> --tier quick|thorough. Known findings: /verif/known_findings.json. Fix commits in /repo start with 'fix:'."}
hooks=subprocess.run(["git","-C","/repo","log","--format=%h %s"],capture_output=True,text=True).stdout.splitlines()
m["hooks"]["source_commits"]=[l.split()[0] for l in hooks if l.split(' ',1)[1].startswith("verif:")]
for p in props:
    i=p['id']
    if i in claims:
        text,ref=claims[i]
        m['checks'].append({"property_id":i,"quick_cmd":f"bin/govc check --property {i} --tier quick","thorough_cmd":f"bin/govc check --property {i} --tier thorough",
          "evidence_file":f"/verif/evidence/{i}.json","engine":"govc","level_claimed":{"category":"proof","text":text,"design_ref":ref},"level_note":NOTE_COMMON,"technique":TECH})
    else:
        m['not_applicable'].append({"property_id":i,"reason":na_reason.get(i,default_na)})
json.dump(m,open('/verif/MANIFEST.json','w'),indent=1)
print("claimed:",sorted(claims))
