#!/bin/bash
# seedrun.sh [seed-dir-names...]: apply each seeded patch to /repo, run its property's check, report detected/missed, revert.
cd /verif
SD=${SEED_DIR:-/verif/seeded}
seeds=${@:-$(ls $SD)}
for s in $seeds; do
  d=$SD/$s
  prop=$(python3 -c "import json;print(json.load(open('$d/meta.json'))['property'])")
  if ! git -C /repo diff --quiet; then echo "/repo is dirty, refusing"; exit 2; fi
  if ! git -C /repo apply $d/patch.diff 2>/dev/null; then echo "$s: PATCH-DOES-NOT-APPLY"; continue; fi
  out=$(bin/govc check --property $prop --no-evidence --out /tmp/seedrun/$s 2>&1)
  rc=$?
  git -C /repo checkout -- .
  fails=$(echo "$out" | grep -E "failed obligation|UNSUPPORTED|CHECK-ERROR" | head -4 | sed 's/^ *//' | cut -c1-220)
  nconf=$(echo "$out" | grep "^VIOLATION" | grep -vc "no-failing-input-found")
  if [ $rc -ne 0 ]; then echo "$s: DETECTED by $prop (violations replayed on the real code and confirmed: $nconf)"; echo "$fails" | sed 's/^/      /'; else echo "$s: MISSED by $prop"; fi
done
rm -rf /tmp/seedrun
