#!/bin/bash
# usage: mut.sh <property> <file-relative-to-repo> <python-replace-old> <python-replace-new>
# applies a textual mutation to /repo, runs the property check (no evidence), reverts.
prop=$1; f=$2; old=$3; new=$4
cd /repo || exit 2
python3 - "$f" "$old" "$new" <<'PY'
import sys
p,old,new=sys.argv[1:4]
s=open(p).read()
if old not in s:
    print("MUTATION-NOT-APPLICABLE"); sys.exit(3)
open(p,'w').write(s.replace(old,new,1))
PY
rc=$?
if [ $rc -ne 0 ]; then git checkout -- "$f"; exit $rc; fi
export GOFLAGS=-mod=mod GOPROXY=off GOSUMDB=off GOTOOLCHAIN=local
if ! go build ./... >/dev/null 2>&1; then echo "MUTANT-DOES-NOT-COMPILE"; git checkout -- "$f"; exit 4; fi
cd /verif && bin/govc check --property "$prop" --no-evidence --out /tmp/mutout 2>&1 | grep -E "failed obligation|^property=|UNSUPPORTED|CHECK-ERROR" 
git -C /repo checkout -- "$f"
rm -rf /tmp/mutout
