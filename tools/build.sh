#!/bin/bash
# builds bin/govc (same as MANIFEST.setup_cmd)
cd /verif/govc && GOFLAGS=-mod=vendor GOPROXY=off GOSUMDB=off GOTOOLCHAIN=local go build -o ../bin/govc .
