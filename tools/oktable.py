#!/usr/bin/env python3
# oktable.py <results-file>: rewrites the must-pass table of DESIGN.md §11 (between the oktable markers) from the output of
# tools/okrun_scratch.sh and the meta.json of every kept behaviour-preserving edit.
import json,re,sys,os
res={}
for l in open(sys.argv[1]):
    m=re.match(r'(\S+): (PASS|ALARM) by (\S+)(?: \| (.*))?',l.strip())
    if m: res[m.group(1)]=(m.group(2),m.group(4) or '')
rows=["| id | kind | edit | result | first failing obligation (false alarms only) |","|---|---|---|---|---|"]
for s in sorted(os.listdir('/verif/harmless')):
    meta=json.load(open(f'/verif/harmless/{s}/meta.json'))
    summ=re.sub(r'\s+',' ',meta.get('summary','')).replace('|','/')[:150]
    kind=re.sub(r'\s+',' ',meta.get('kind','')).replace('|','/')[:40]
    r,f=res.get(s,('NOT RUN',''))
    f=f.split(';')[0].strip()
    f=re.sub(r' \((unknown|sat|error|timeout),.*','',f)
    f=re.sub(r'^(components|core|lib|cli)[\w/]*\.','',f)
    f=('`'+f[:140]+'`') if f and r=='ALARM' else ''
    rows.append(f"| {s} | {kind} | {summ} | {'pass' if r=='PASS' else 'FALSE ALARM' if r=='ALARM' else r} | {f} |")
d=open('/verif/DESIGN.md').read()
b,e='<!-- oktable:begin -->','<!-- oktable:end -->'
i,j=d.index(b),d.index(e)
d=d[:i+len(b)]+"\n"+"\n".join(rows)+"\n"+d[j:]
open('/verif/DESIGN.md','w').write(d)
print(len(rows)-2,"rows", sum(1 for v in res.values() if v[0]=='PASS'),"pass")
