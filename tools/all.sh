#!/bin/bash
# runs every claimed quick check in parallel, prints summary lines
cd /verif
props=${@:-$(python3 -c "import json;print(' '.join(c['property_id'] for c in json.load(open('MANIFEST.json'))['checks']))")}
for p in $props; do
  ( bin/govc check --property $p --tier quick --no-evidence --out /tmp/allout/$p 2>&1 | grep -E "^property=|failed obligation|UNSUPPORTED|CHECK-ERROR|KNOWN" | cut -c1-200 | head -12 | sed "s/^/[$p] /" ) &
done
wait
rm -rf /tmp/allout
