#!/usr/bin/env python3
# seedtable.py <results-file>: rewrites the table of DESIGN.md §11 (between the seedtable markers) from the output of
# tools/seedrun_scratch.sh and the meta.json of every kept change.
import json,re,sys,os
res={}
for l in open(sys.argv[1]):
    m=re.match(r'(\S+): (DETECTED|MISSED) by (\S+)(?: \| (.*))?',l.strip())
    if m: res[m.group(1)]=(m.group(2),m.group(4) or '')
rows=["| id | change | result | first failing obligation(s) |","|---|---|---|---|"]
def key(s):
    m=re.match(r'(C\d+)-(?:r(\d))?m(\d+)',s); return (m.group(1), int(m.group(2) or 1), int(m.group(3)))
for s in sorted(os.listdir('/verif/seeded'),key=key):
    meta=json.load(open(f'/verif/seeded/{s}/meta.json'))
    summ=re.sub(r'\s+',' ',meta.get('summary','')).replace('|','/')
    summ=summ[:170]
    r,f=res.get(s,('NOT RUN',''))
    f='; '.join('`'+re.sub(r'^(components|core|lib|cli)[\w/]*\.','',x.strip())+'`' for x in f.split(';') if x.strip())
    rows.append(f"| {s} | {summ} | {r} | {f} |")
d=open('/verif/DESIGN.md').read()
b,e='<!-- seedtable:begin -->','<!-- seedtable:end -->'
i,j=d.index(b),d.index(e)
d=d[:i+len(b)]+"\n"+"\n".join(rows)+"\n"+d[j:]
open('/verif/DESIGN.md','w').write(d)
print(len(rows)-2,"rows")
