#!/bin/bash
# okrun_scratch.sh [names...]: the must-pass corpus. Every behaviour-preserving edit under /verif/harmless/<name>/ is applied
# to its own scratch copy of /repo's working tree (under /tmp, removed afterwards) and the property's check must exit 0.
# Output: "<name>: PASS by P" or "<name>: ALARM by P | first failing obligations".
cd /verif
SD=${OK_DIR:-/verif/harmless}
names=${@:-$(ls $SD)}
one() {
  s=$1; SD=$2
  d=$SD/$s
  prop=$(python3 -c "import json;print(json.load(open('$d/meta.json'))['property'])")
  cp=$(mktemp -d /tmp/okscratch.XXXXXX)
  rsync -a --exclude .git /repo/ $cp/
  if ! (cd $cp && patch -p1 -s --no-backup-if-mismatch < $d/patch.diff >/dev/null 2>&1); then echo "$s: PATCH-DOES-NOT-APPLY"; rm -rf $cp; return; fi
  out=$(bin/govc check --property $prop --repo $cp --no-evidence --no-replay --out $cp/.govc-out 2>&1)
  rc=$?
  rm -rf $cp
  fails=$(echo "$out" | grep -E "failed obligation|UNSUPPORTED|CHECK-ERROR|STALE" | head -3 | sed 's/^ *//; s/failed obligation: //' | cut -c1-220 | paste -sd';' -)
  if [ $rc -ne 0 ]; then echo "$s: ALARM by $prop | $fails"; else echo "$s: PASS by $prop${fails:+ | $fails}"; fi
}
export -f one
echo $names | tr ' ' '\n' | xargs -P ${PAR:-3} -I{} bash -c "one {} $SD" | sort
